package main

// Rules added in the twelfth seeding round.

import (
	"fmt"
	"go/token"
	"go/types"
	"sort"
	"strings"

	"golang.org/x/tools/go/ssa"
)

// ---------- shared: the name/pointer pair list of UnpackArgs ----------

// pairLists answers questions about the variadic `...any` lists of the unpack family: which slice values
// are such a list (the variadic parameter itself, or a slice parameter of a module helper that receives
// one at every call site), and which element loads a value may come from (through helper parameters).
type pairLists struct {
	d *repDomain
}

func newPairLists(p *Prog) *pairLists { return &pairLists{d: newRepDomain(p)} }

func emptyIface(t types.Type) bool {
	it, ok := t.Underlying().(*types.Interface)
	return ok && it.NumMethods() == 0
}

func (pl *pairLists) isPairList(v ssa.Value, depth int) bool {
	if depth > 3 {
		return false
	}
	for {
		switch x := v.(type) {
		case *ssa.Slice:
			v = x.X
			continue
		case *ssa.ChangeType:
			v = x.X
			continue
		}
		break
	}
	p, ok := v.(*ssa.Parameter)
	if !ok {
		return false
	}
	st, ok := p.Type().Underlying().(*types.Slice)
	if !ok || !emptyIface(st.Elem()) {
		return false
	}
	fn := p.Parent()
	idx := -1
	for i, q := range fn.Params {
		if q == p {
			idx = i
		}
	}
	if fn.Signature.Variadic() && idx == len(fn.Params)-1 && relPkg(fnPkgPath(fn)) == "starlark" {
		return true
	}
	if pl.d.taken[fn] || (fn.Object() != nil && fn.Object().Exported()) || len(pl.d.calls[fn]) == 0 {
		return false
	}
	for _, call := range pl.d.calls[fn] {
		if idx >= len(call.Call.Args) || !pl.isPairList(call.Call.Args[idx], depth+1) {
			return false
		}
	}
	return true
}

// elemLoads: the element loads list[idx] of pair lists that v may be (v itself, or a parameter of an
// unexported helper/closure fed by such loads at every call site); complete=false when some source is
// something else.
func (pl *pairLists) elemLoads(v ssa.Value, depth int) (loads []*ssa.IndexAddr, complete bool) {
	if depth > 3 {
		return nil, false
	}
	switch x := v.(type) {
	case *ssa.UnOp:
		if x.Op == token.MUL {
			if ia, ok := x.X.(*ssa.IndexAddr); ok && pl.isPairList(ia.X, 0) {
				return []*ssa.IndexAddr{ia}, true
			}
		}
	case *ssa.Parameter:
		fn := x.Parent()
		idx := -1
		for i, q := range fn.Params {
			if q == x {
				idx = i
			}
		}
		if pl.d.taken[fn] || (fn.Object() != nil && fn.Object().Exported()) || len(pl.d.calls[fn]) == 0 {
			return nil, false
		}
		complete = true
		for _, call := range pl.d.calls[fn] {
			if idx >= len(call.Call.Args) {
				return nil, false
			}
			l, ok := pl.elemLoads(call.Call.Args[idx], depth+1)
			if !ok {
				complete = false
			}
			loads = append(loads, l...)
		}
		return loads, complete && len(loads) > 0
	}
	return nil, false
}

// parity of an integer value: 0 even, 1 odd, -1 unknown. A loop counter that starts even and is stepped
// by an even amount is even.
func parityOf(v ssa.Value, assume map[*ssa.Phi]int, depth int) int {
	if depth > 8 {
		return -1
	}
	if k, ok := constInt(v); ok {
		return int(((k % 2) + 2) % 2)
	}
	switch x := v.(type) {
	case *ssa.Convert:
		return parityOf(x.X, assume, depth+1)
	case *ssa.ChangeType:
		return parityOf(x.X, assume, depth+1)
	case *ssa.BinOp:
		a, b := parityOf(x.X, assume, depth+1), parityOf(x.Y, assume, depth+1)
		switch x.Op {
		case token.MUL:
			if a == 0 || b == 0 {
				return 0
			}
			if a == 1 && b == 1 {
				return 1
			}
		case token.ADD, token.SUB:
			if a >= 0 && b >= 0 {
				return (a + b) % 2
			}
		case token.SHL:
			if k, ok := constInt(x.Y); ok && k >= 1 {
				return 0
			}
		}
		return -1
	case *ssa.Phi:
		if p, ok := assume[x]; ok {
			return p
		}
		for _, guess := range []int{0, 1} {
			assume[x] = guess
			good := true
			for _, e := range x.Edges {
				if parityOf(e, assume, depth+1) != guess {
					good = false
					break
				}
			}
			delete(assume, x)
			if good {
				return guess
			}
		}
	}
	return -1
}

// ---------- A14: names sit at even positions of the pair list ----------

func init() {
	register("A14", "the name/variable pair list of UnpackArgs is read with the right stride: the variadic list alternates a parameter name (a string, at an even position) and a pointer to the variable (at the following odd position). Every element of such a list - also when the list or the element is handed to a helper or a closure - that is asserted, without a comma-ok test, to be a string is read at a position whose parity the analysis decides to be even (2*i, a counter started at 0 and stepped by 2, ...); a position of unknown parity (a plain counter over the number of parameters) reads a pointer where a name is expected for every second value, and the assertion panics in the host when a script misspells a keyword", 2, ruleA14)
	claim("C02", "A14")
	claim("C08", "A14")
}

func ruleA14(c *Ctx) {
	pl := newPairLists(c.P)
	n := 0
	for _, fn := range c.P.Funcs {
		if relPkg(fnPkgPath(fn)) != "starlark" {
			continue
		}
		ord := 0
		eachInstr(fn, func(in ssa.Instruction) {
			ta, ok := in.(*ssa.TypeAssert)
			if !ok || ta.CommaOk {
				return
			}
			if bt, ok := ta.AssertedType.Underlying().(*types.Basic); !ok || bt.Info()&types.IsString == 0 {
				return
			}
			loads, complete := pl.elemLoads(ta.X, 0)
			if len(loads) == 0 {
				return
			}
			_ = complete
			for _, ia := range loads {
				n++
				ord++
				key := fmt.Sprintf("%s: name read from the pair list #%d", fnName(fn), ord)
				pos := c.P.Pos(ia.Pos())
				switch parityOf(ia.Index, map[*ssa.Phi]int{}, 0) {
				case 0:
					c.ok(key, pos, "the position is even on every path (names are at 0, 2, 4, ...)")
				case 1:
					c.viol(key, pos, "a parameter name is read from an odd position of the name/variable list, where the pointers are: the string assertion panics")
				default:
					c.viol(key, pos, "a parameter name is read from a position of the name/variable list whose parity is not fixed (a counter stepped by one): every second read finds a pointer, and the unchecked string assertion panics in the host")
				}
			}
		})
	}
	c.note("%d reads of parameter names from a pair list", n)
}

// n18HostName: the string is a parameter name taken from the pair list of UnpackArgs (written by the host
// program, never by a script).
func n18HostName(pl *pairLists, v ssa.Value) bool {
	for i := 0; i < 4; i++ {
		switch x := v.(type) {
		case *ssa.Phi:
			// name, or name with a suffix cut off
			all := len(x.Edges) > 0
			for _, e := range x.Edges {
				if !n18HostName(pl, e) {
					all = false
				}
			}
			return all
		case *ssa.Slice:
			v = x.X
			continue
		case *ssa.TypeAssert:
			loads, complete := pl.elemLoads(x.X, 0)
			return complete && len(loads) > 0
		}
		break
	}
	return false
}

// ---------- E15: an interface is compared with a constant of a type it can hold ----------

func init() {
	register("E15", "a literal's value is compared as what it is: syntax.Literal.Value (and every other field of interface type in the syntax tree) holds a string, an int64, a *big.Int or a float64 - the types the scanner and parser store there. A comparison of such a field with a constant compares dynamic types first, so `lit.Value != 0` (an untyped constant becomes an int) is true for every literal, including 0. For every == or != between a field of interface type of a syntax node and a constant, the constant's type is one of the types that the module itself stores into that field", 0, ruleE15)
	claim("C01", "E15")
	claim("C09", "E15")
}

func ruleE15(c *Ctx) {
	// types stored per interface-typed field of syntax structs
	type fkey struct {
		owner string
		field string
	}
	stored := map[fkey]map[string]bool{}
	fieldOf := func(v ssa.Value) (fkey, bool) {
		ld, ok := v.(*ssa.UnOp)
		if ok && ld.Op == token.MUL {
			if fa, ok := ld.X.(*ssa.FieldAddr); ok {
				o, f := ownerField(fa)
				if strings.HasPrefix(o, "syntax.") {
					if _, isI := deref(fa.X.Type()).Underlying().(*types.Struct).Field(fa.Field).Type().Underlying().(*types.Interface); isI {
						return fkey{o, f}, true
					}
				}
			}
		}
		if fl, ok := v.(*ssa.Field); ok {
			st := fl.X.Type().Underlying().(*types.Struct)
			o := qualType(fl.X.Type())
			if strings.HasPrefix(o, "syntax.") {
				if _, isI := st.Field(fl.Field).Type().Underlying().(*types.Interface); isI {
					return fkey{o, st.Field(fl.Field).Name()}, true
				}
			}
		}
		return fkey{}, false
	}
	for _, fn := range c.P.Funcs {
		eachInstr(fn, func(in ssa.Instruction) {
			st, ok := in.(*ssa.Store)
			if !ok {
				return
			}
			fa, ok := st.Addr.(*ssa.FieldAddr)
			if !ok {
				return
			}
			o, f := ownerField(fa)
			if !strings.HasPrefix(o, "syntax.") {
				return
			}
			if _, isI := deref(fa.X.Type()).Underlying().(*types.Struct).Field(fa.Field).Type().Underlying().(*types.Interface); !isI {
				return
			}
			k := fkey{o, f}
			if stored[k] == nil {
				stored[k] = map[string]bool{}
			}
			var add func(v ssa.Value, depth int)
			add = func(v ssa.Value, depth int) {
				if depth > 4 {
					stored[k]["?"] = true
					return
				}
				switch x := v.(type) {
				case *ssa.MakeInterface:
					stored[k][x.X.Type().String()] = true
				case *ssa.Phi:
					for _, e := range x.Edges {
						add(e, depth+1)
					}
				case *ssa.Const:
					// nil
				case *ssa.UnOp:
					// a value copied from a variable of interface type (the scanner's token value): its own stores
					if al, ok := x.X.(*ssa.Alloc); ok && x.Op == token.MUL {
						for _, r := range *al.Referrers() {
							if s2, ok := r.(*ssa.Store); ok && s2.Addr == ssa.Value(al) {
								add(s2.Val, depth+1)
							}
						}
						return
					}
					stored[k]["?"] = true
				default:
					stored[k]["?"] = true
				}
			}
			add(st.Val, 0)
		})
	}
	n := 0
	for _, fn := range c.P.Funcs {
		if !isProdPkg(fnPkgPath(fn)) {
			continue
		}
		ord := 0
		eachInstr(fn, func(in ssa.Instruction) {
			b, ok := in.(*ssa.BinOp)
			if !ok || (b.Op != token.EQL && b.Op != token.NEQ) {
				return
			}
			for _, pair := range [][2]ssa.Value{{b.X, b.Y}, {b.Y, b.X}} {
				k, isF := fieldOf(pair[0])
				mi, isM := pair[1].(*ssa.MakeInterface)
				if !isF || !isM {
					continue
				}
				if _, isK := mi.X.(*ssa.Const); !isK {
					continue
				}
				n++
				ord++
				key := fmt.Sprintf("%s: %s.%s compared with a constant #%d", fnName(fn), k.owner, k.field, ord)
				pos := c.P.Pos(b.Pos())
				ts := stored[k]
				kt := mi.X.Type().String()
				switch {
				case ts[kt]:
					c.ok(key, pos, "the constant has a type that the module stores into this field")
				case ts["?"] || len(ts) == 0:
					c.ok(key, pos, "the field's dynamic types are not all visible; no verdict")
				default:
					var have []string
					for t := range ts {
						have = append(have, t)
					}
					sort.Strings(have)
					c.viol(key, pos, fmt.Sprintf("the field holds %s, the constant is an %s: the dynamic types differ, so == is always false and != always true, whatever the literal's value", strings.Join(have, ", "), kt))
				}
			}
		})
	}
	c.note("%d comparisons of a syntax node's interface field with a constant", n)
}

// ---------- G1: an unassigned global slot never leaves the module as a value ----------

func init() {
	register("G1", "nil marks an unassigned global and stays inside: the slots of a module's globals array are nil until the variable is assigned. Every read of a slot (also through a local copy of the slice) is either compared with nil, or used only where a test on the path has excluded nil - the interpreter turns nil into 'referenced before assignment', the exported views (Globals(), the REPL's write-back) skip it. A nil that is copied into a StringDict makes Has() answer true for a name that was never assigned: the next REPL chunk is resolved against a phantom global and fails at run time, after its side effects, where it should have been rejected", 2, ruleG1)
	claim("C09", "G1")
	claim("C01", "G1")
}

func ruleG1(c *Ctx) {
	n := 0
	var isGlobalsSlice func(fn *ssa.Function, v ssa.Value, depth int) bool
	isGlobalsSlice = func(fn *ssa.Function, v ssa.Value, depth int) bool {
		tr := traceValue(v)
		for i, f := range tr.fields {
			if f.Name() == "globals" && strings.HasSuffix(qualType(tr.owners[i]), "odule") {
				return true
			}
		}
		if depth > 2 {
			return false
		}
		// a local copy of the slice captured by a closure
		for _, b := range tr.bases {
			fv, ok := b.v.(*ssa.FreeVar)
			if !ok {
				continue
			}
			for _, mc := range closureSites(fn) {
				bind := freeVarBinding(mc, fv)
				if bind == nil {
					continue
				}
				if isGlobalsSlice(mc.Parent(), bind, depth+1) {
					return true
				}
				if al, ok := bind.(*ssa.Alloc); ok {
					for _, r := range *al.Referrers() {
						if st, ok := r.(*ssa.Store); ok && st.Addr == ssa.Value(al) && isGlobalsSlice(mc.Parent(), st.Val, depth+1) {
							return true
						}
					}
				}
			}
		}
		return false
	}
	for _, fn := range c.P.Funcs {
		if relPkg(fnPkgPath(fn)) != "starlark" {
			continue
		}
		ord := 0
		eachInstr(fn, func(in ssa.Instruction) {
			ld, ok := in.(*ssa.UnOp)
			if !ok || ld.Op != token.MUL {
				return
			}
			ia, ok := ld.X.(*ssa.IndexAddr)
			if !ok {
				return
			}
			if st, ok := ia.X.Type().Underlying().(*types.Slice); !ok || !isNamed(st.Elem(), "starlark", "Value") {
				return
			}
			if !isGlobalsSlice(fn, ia.X, 0) {
				return
			}
			n++
			ord++
			key := fmt.Sprintf("%s: read of a global slot #%d", fnName(fn), ord)
			pos := c.P.Pos(ld.Pos())
			refs := ld.Referrers()
			bad := ""
			if refs != nil {
				for _, r := range *refs {
					if _, dbg := r.(*ssa.DebugRef); dbg {
						continue
					}
					if b, ok := r.(*ssa.BinOp); ok {
						if _, _, isNil := nilTest(b); isNil {
							continue
						}
					}
					var at *ssa.BasicBlock = r.Block()
					if phi, ok := r.(*ssa.Phi); ok {
						for i, e := range phi.Edges {
							if e == ssa.Value(ld) {
								at = phi.Block().Preds[i]
							}
						}
					}
					_, nonNil := knownNilness(at, func(v ssa.Value) bool { return v == ssa.Value(ld) })
					if !nonNil {
						// the test may be the terminator of the predecessor itself (edge-sensitive phi use)
						bad = fmt.Sprintf("%T", r)
					}
				}
			}
			if bad == "" {
				c.ok(key, pos, "only compared with nil, or used where nil is excluded")
			} else {
				c.viol(key, pos, fmt.Sprintf("the content of a global slot is used (%s) where it may still be nil - the mark of a variable that has not been assigned: it escapes as if it were a value", bad))
			}
		})
	}
	c.note("%d reads of global slots", n)
}

// ---------- G2: the REPL's globals are written back on every exit ----------

func init() {
	register("G2", "what a REPL chunk assigned survives its failure: a function that runs a toplevel with starlark.Call and copies the module's globals into a StringDict it was given (ExecREPLChunk) does so on every path from the call to a return - the copy loop is passed, or was deferred before the call - so that the bindings made before a failing statement are kept for the next chunk, as they are for ExecFile, which returns the partial globals together with the error", 1, ruleG2)
	claim("C01", "G2")
}

func ruleG2(c *Ctx) {
	callFn := c.P.Func("starlark", "Call")
	if callFn == nil {
		c.anchorFail("starlark.Call not found")
		return
	}
	n := 0
	for _, fn := range c.P.Funcs {
		if relPkg(fnPkgPath(fn)) != "starlark" || fn.Parent() != nil {
			continue
		}
		var dict *ssa.Parameter
		for _, p := range fn.Params {
			if isNamed(p.Type(), "starlark", "StringDict") {
				dict = p
			}
		}
		if dict == nil {
			continue
		}
		// updates of the parameter, here or in a deferred closure
		updatesIn := func(f *ssa.Function, isDict func(v ssa.Value) bool) []*ssa.MapUpdate {
			var out []*ssa.MapUpdate
			eachInstr(f, func(in ssa.Instruction) {
				if mu, ok := in.(*ssa.MapUpdate); ok && isDict(mu.Map) {
					out = append(out, mu)
				}
			})
			return out
		}
		isParam := func(v ssa.Value) bool {
			for _, b := range traceValue(v).bases {
				if b.v == ssa.Value(dict) {
					return true
				}
			}
			return false
		}
		own := updatesIn(fn, isParam)
		// the copy done by a helper that is handed the dictionary (exportGlobals(dst))
		var ownCalls []*ssa.Call
		var updatesParam func(f *ssa.Function, idx, depth int) bool
		updatesParam = func(f *ssa.Function, idx, depth int) bool {
			if depth > 2 || len(f.Blocks) == 0 || idx >= len(f.Params) {
				return false
			}
			found := false
			eachInstr(f, func(in ssa.Instruction) {
				switch x := in.(type) {
				case *ssa.MapUpdate:
					if x.Map == ssa.Value(f.Params[idx]) {
						found = true
					}
				case *ssa.Call:
					if cal := x.Call.StaticCallee(); cal != nil && !x.Call.IsInvoke() {
						for ai, a := range x.Call.Args {
							if a == ssa.Value(f.Params[idx]) && updatesParam(cal, ai, depth+1) {
								found = true
							}
						}
					}
				}
			})
			return found
		}
		eachInstr(fn, func(in ssa.Instruction) {
			if call, ok := in.(*ssa.Call); ok && !call.Call.IsInvoke() {
				if cal := call.Call.StaticCallee(); cal != nil && cal != callFn && strings.HasPrefix(fnPkgPath(cal), modPath) {
					for ai, a := range call.Call.Args {
						if isParam(a) && isNamed(a.Type(), "starlark", "StringDict") && updatesParam(cal, ai, 0) {
							ownCalls = append(ownCalls, call)
						}
					}
				}
			}
		})
		var deferred []*ssa.Defer
		eachInstr(fn, func(in ssa.Instruction) {
			d, ok := in.(*ssa.Defer)
			if !ok {
				return
			}
			body := deferredBody(d)
			if body == nil {
				return
			}
			mc, _ := d.Call.Value.(*ssa.MakeClosure)
			ups := updatesIn(body, func(v ssa.Value) bool {
				for _, b := range traceValue(v).bases {
					if fv, ok := b.v.(*ssa.FreeVar); ok && mc != nil {
						if bind := freeVarBinding(mc, fv); bind != nil && isParam(bind) {
							return true
						}
					}
				}
				return false
			})
			if len(ups) > 0 {
				deferred = append(deferred, d)
			}
		})
		if len(own) == 0 && len(deferred) == 0 && len(ownCalls) == 0 {
			continue
		}
		var runs []*ssa.Call
		eachInstr(fn, func(in ssa.Instruction) {
			if call, ok := in.(*ssa.Call); ok && call.Call.StaticCallee() == callFn {
				runs = append(runs, call)
			}
		})
		if len(runs) == 0 {
			continue
		}
		// the headers of the loops that contain an update (a loop may run zero times: passing its header counts)
		through := map[*ssa.BasicBlock]bool{}
		for _, call := range ownCalls {
			through[call.Block()] = true
		}
		for _, mu := range own {
			through[mu.Block()] = true
			for head, blocks := range naturalLoops(fn) {
				if blocks[mu.Block()] {
					through[head] = true
				}
			}
		}
		for i, run := range runs {
			n++
			key := fmt.Sprintf("%s: globals written back after the toplevel call #%d", fnName(fn), i+1)
			pos := c.P.Pos(run.Pos())
			okDefer := false
			for _, d := range deferred {
				if d.Block().Dominates(run.Block()) {
					okDefer = true
				}
			}
			if okDefer {
				c.ok(key, pos, "the copy is deferred before the call")
				continue
			}
			sameBlock := false
			for _, call := range ownCalls {
				if call.Block() == run.Block() && instrIndex(call) > instrIndex(run) {
					sameBlock = true
				}
			}
			for _, mu := range own {
				if mu.Block() == run.Block() && instrIndex(mu) > instrIndex(run) {
					sameBlock = true
				}
			}
			if sameBlock {
				c.ok(key, pos, "the globals are copied back straight after the call")
				continue
			}
			// a return reachable from the call without passing a copy loop
			seen := map[*ssa.BasicBlock]bool{}
			var leak *ssa.BasicBlock
			var walk func(b *ssa.BasicBlock)
			walk = func(b *ssa.BasicBlock) {
				if seen[b] || leak != nil {
					return
				}
				seen[b] = true
				if through[b] && b != run.Block() {
					return
				}
				if len(b.Instrs) > 0 {
					if _, isRet := b.Instrs[len(b.Instrs)-1].(*ssa.Return); isRet {
						leak = b
						return
					}
				}
				for _, s := range b.Succs {
					walk(s)
				}
			}
			walk(run.Block())
			if leak == nil {
				c.ok(key, pos, "every path from the call to a return passes the loop that copies the globals back")
			} else {
				c.viol(key, c.P.Pos(leak.Instrs[len(leak.Instrs)-1].Pos()), "this return is reached from the toplevel call without copying the module's globals back into the caller's dictionary (an early return on error): the assignments a failing chunk made before it failed are lost to the session")
			}
		}
	}
	c.note("%d toplevel runs with a write-back", n)
}

// ---------- P4: codec options that drop data are not set ----------

func init() {
	register("P4", "unmarshalling keeps what it does not understand: no option of the protobuf codecs that discards or tolerates data is switched on in the module - the DiscardUnknown and AllowPartial fields of proto/prototext/protojson (Un)marshalOptions stay false. Unknown fields are how a message written against a newer schema (or carrying extensions) survives a relay through unmarshal and marshal; with DiscardUnknown they vanish silently, and the text form no longer rejects fields the descriptor does not have", 0, ruleP4)
	claim("C20", "P4")
}

func ruleP4(c *Ctx) {
	n, lits := 0, 0
	for _, fn := range c.P.Funcs {
		if !isProdPkg(fnPkgPath(fn)) {
			continue
		}
		ord := 0
		eachInstr(fn, func(in ssa.Instruction) {
			if al, ok := in.(*ssa.Alloc); ok {
				if pp, tn := namedOf(deref(al.Type())); strings.HasPrefix(pp, "google.golang.org/protobuf/") && strings.HasSuffix(tn, "Options") {
					lits++
				}
			}
			st, ok := in.(*ssa.Store)
			if !ok {
				return
			}
			fa, ok := st.Addr.(*ssa.FieldAddr)
			if !ok {
				return
			}
			pp, tn := namedOf(deref(fa.X.Type()))
			if !strings.HasPrefix(pp, "google.golang.org/protobuf/") || !strings.HasSuffix(tn, "Options") {
				return
			}
			fname := deref(fa.X.Type()).Underlying().(*types.Struct).Field(fa.Field).Name()
			if fname != "DiscardUnknown" && fname != "AllowPartial" && fname != "UseCachedSize" {
				return
			}
			n++
			ord++
			key := fmt.Sprintf("%s: %s.%s set #%d", fnName(fn), tn, fname, ord)
			if k, ok := st.Val.(*ssa.Const); ok && k.Value != nil && k.Value.String() == "false" {
				c.ok(key, c.P.Pos(st.Pos()), "set to false")
				return
			}
			c.viol(key, c.P.Pos(st.Pos()), fmt.Sprintf("%s.%s is switched on: data the descriptor does not describe (unknown fields, extensions, missing required fields) is dropped or tolerated silently, so a message no longer survives unmarshal followed by marshal", tn, fname))
		})
	}
	c.note("%d protobuf option structs built, %d lossy options set", lits, n)
}

// ---------- J11: after the recovering handler is installed, failures go through it ----------

func init() {
	register("J11", "one channel for failures: a function that installs a deferred handler which recovers the package's private failure value and turns it into the function's results (json.decode: the `default` value, or the error with its offset) reports every later failure by panicking with that value. After the defer statement the function body itself stores nothing but nil into its error result; an error built and returned directly bypasses the handler, so decode(x, default=d) raises for that kind of malformed input where it must answer d", 1, ruleJ11)
	claim("C18", "J11")
}

func ruleJ11(c *Ctx) {
	n := 0
	for _, fn := range c.P.Funcs {
		if !isProdPkg(fnPkgPath(fn)) {
			continue
		}
		// the error result, if named (a deferred closure can only set named results)
		res := fn.Signature.Results()
		if res.Len() == 0 || !isErrorType(res.At(res.Len()-1).Type()) {
			continue
		}
		var handlers []*ssa.Defer
		var errAlloc *ssa.Alloc
		eachInstr(fn, func(in ssa.Instruction) {
			d, ok := in.(*ssa.Defer)
			if !ok {
				return
			}
			body := deferredBody(d)
			mc, _ := d.Call.Value.(*ssa.MakeClosure)
			if body == nil {
				return
			}
			recovers := false
			var writes []*ssa.Alloc
			eachInstr(body, func(in2 ssa.Instruction) {
				if call, ok := in2.(*ssa.Call); ok {
					if b, ok := call.Call.Value.(*ssa.Builtin); ok && b.Name() == "recover" {
						recovers = true
					}
				}
				if st, ok := in2.(*ssa.Store); ok {
					if fv, ok := st.Addr.(*ssa.FreeVar); ok && mc != nil {
						if al, ok := freeVarBinding(mc, fv).(*ssa.Alloc); ok {
							writes = append(writes, al)
						}
					}
					// a named function handed the addresses of the results: defer h(&v, &err)
					if prm, ok := st.Addr.(*ssa.Parameter); ok && mc == nil {
						for pi, q := range body.Params {
							if q == prm && pi < len(d.Call.Args) {
								if al, ok := d.Call.Args[pi].(*ssa.Alloc); ok {
									writes = append(writes, al)
								}
							}
						}
					}
				}
			})
			if !recovers {
				return
			}
			for _, al := range writes {
				if isErrorType(deref(al.Type())) {
					errAlloc = al
				}
			}
			// the handler supplies an ordinary result too (a fallback value)
			nonErr := false
			for _, al := range writes {
				if !isErrorType(deref(al.Type())) {
					nonErr = true
				}
			}
			if errAlloc != nil && nonErr {
				handlers = append(handlers, d)
			}
		})
		if len(handlers) == 0 || errAlloc == nil {
			continue
		}
		for hi, d := range handlers {
			n++
			key := fmt.Sprintf("%s: failures after the recovering handler #%d", fnName(fn), hi+1)
			var bad ssa.Instruction
			for _, r := range *errAlloc.Referrers() {
				st, ok := r.(*ssa.Store)
				if !ok || st.Addr != ssa.Value(errAlloc) || st.Parent() != fn {
					continue
				}
				after := d.Block().Dominates(st.Block()) && (d.Block() != st.Block() || instrIndex(d) < instrIndex(st))
				if !after {
					continue
				}
				if k, ok := st.Val.(*ssa.Const); ok && k.Value == nil {
					continue
				}
				bad = st
			}
			if bad == nil {
				c.ok(key, c.P.Pos(d.Pos()), "after the defer the body sets its error result to nil only; failures are panics that the handler converts")
			} else {
				c.viol(key, c.P.Pos(bad.Pos()), "an error is stored into the result directly after the recovering handler was installed: this failure does not pass through the handler, which is where the fallback value (json.decode's `default`) and the common error form are applied")
			}
		}
	}
	c.note("%d recovering handlers that supply results", n)
}

func instrIndex(in ssa.Instruction) int {
	for i, x := range in.Block().Instrs {
		if x == in {
			return i
		}
	}
	return -1
}

func isErrorType(t types.Type) bool {
	n, ok := t.(*types.Named)
	return ok && n.Obj().Pkg() == nil && n.Obj().Name() == "error"
}

// ---------- M6: a push iterator over an Iterable yields under the iteration lock ----------

func init() {
	register("M6", "the generic push iterators lock what they walk: where a function or closure of the value package is given a yield function (func(Value...) bool) and has, as a parameter or captured variable, an iterable of an interface type with an Iterate method (the closures returned by starlark.Elements and starlark.Entries, or helpers of them), it calls yield only after calling Iterate() on that iterable - which is what takes the mutation lock of a list, dict or set - and not on a snapshot obtained some other way (Items(), Keys()): a loop body that mutates the mapping must fail with 'during iteration', as it does in a Starlark for loop", 2, ruleM6)
	claim("C06", "M6")
}

func ruleM6(c *Ctx) {
	n := 0
	hasIterate := func(t types.Type) bool {
		if pt, ok := t.(*types.Pointer); ok {
			t = pt.Elem() // a captured variable
		}
		it, ok := t.Underlying().(*types.Interface)
		if !ok {
			return false
		}
		for i := 0; i < it.NumMethods(); i++ {
			if it.Method(i).Name() == "Iterate" {
				return true
			}
		}
		return false
	}
	isYieldType := func(t types.Type) bool {
		sig, ok := t.Underlying().(*types.Signature)
		if !ok || sig.Results().Len() != 1 || sig.Params().Len() == 0 {
			return false
		}
		if bt, ok := sig.Results().At(0).Type().Underlying().(*types.Basic); !ok || bt.Kind() != types.Bool {
			return false
		}
		for i := 0; i < sig.Params().Len(); i++ {
			if !isNamed(sig.Params().At(i).Type(), "starlark", "Value") {
				return false
			}
		}
		return true
	}
	for _, fn := range c.P.Funcs {
		if relPkg(fnPkgPath(fn)) != "starlark" {
			continue
		}
		// the function (the closure returned by Elements/Entries, or a helper of it) receives a yield
		// function and can reach an iterable of interface type
		var yields []*ssa.Parameter
		for _, p := range fn.Params {
			if isYieldType(p.Type()) {
				yields = append(yields, p)
			}
		}
		if len(yields) == 0 {
			continue
		}
		var srcs []ssa.Value
		for _, p := range fn.Params {
			if hasIterate(p.Type()) {
				srcs = append(srcs, p)
				continue
			}
			// a small struct that carries the iterable (the closure turned into a method)
			if st, ok := deref(p.Type()).Underlying().(*types.Struct); ok {
				for i := 0; i < st.NumFields(); i++ {
					if hasIterate(st.Field(i).Type()) && relPkg(fnPkgPath(fn)) == "starlark" {
						if _, isN := deref(p.Type()).(*types.Named); isN && !isNamed(deref(p.Type()), "starlark", "Thread") {
							srcs = append(srcs, p)
							break
						}
					}
				}
			}
		}
		for _, fv := range fn.FreeVars {
			if hasIterate(fv.Type()) {
				srcs = append(srcs, fv)
			}
		}
		if len(srcs) == 0 {
			continue
		}
		isSrc := func(v ssa.Value) bool {
			for _, b := range traceValue(v).bases {
				for _, s := range srcs {
					if b.v == s {
						return true
					}
				}
			}
			return false
		}
		var locks []*ssa.Call
		eachInstr(fn, func(in ssa.Instruction) {
			if call, ok := in.(*ssa.Call); ok && call.Call.IsInvoke() && call.Call.Method.Name() == "Iterate" && isSrc(call.Call.Value) {
				locks = append(locks, call)
			}
		})
		ord := 0
		eachInstr(fn, func(in ssa.Instruction) {
			call, ok := in.(*ssa.Call)
			if !ok {
				return
			}
			isY := false
			for _, y := range yields {
				if call.Call.Value == ssa.Value(y) {
					isY = true
				}
			}
			if !isY {
				return
			}
			n++
			ord++
			key := fmt.Sprintf("%s: yield #%d", fnName(fn), ord)
			locked := false
			for _, l := range locks {
				if l.Block().Dominates(call.Block()) {
					locked = true
				}
			}
			if locked {
				c.ok(key, c.P.Pos(call.Pos()), "yields between Iterate() and Done() of the iterable")
			} else {
				c.viol(key, c.P.Pos(call.Pos()), "the push iterator yields without having called Iterate() on the iterable: the elements come from a snapshot and the container is not locked, so the loop body may mutate it")
			}
		})
	}
	c.note("%d yields in generic push iterators", n)
}

// ---------- L11: every emitted instruction takes the pending position ----------

func init() {
	register("L11", "the position set for an instruction reaches the instruction, whatever its opcode: where the compiler builds an instruction record from an opcode parameter (fcomp.emit, emit1), the record's line and column are, on every path, the pending position (fields of the syntax.Position kept in the compiler state) - not zero for some opcodes according to a table or a flag. The interpreter reports the position of the nearest earlier instruction that has one; an opcode left out of such a table (`in`) is reported at its operand's position", 2, ruleL11)
	claim("C16", "L11")
}

func ruleL11(c *Ctx) {
	n := 0
	var fromPos func(v ssa.Value, depth int) (ok bool, why string)
	fromPos = func(v ssa.Value, depth int) (bool, string) {
		if depth > 5 {
			return false, "too deep"
		}
		switch x := v.(type) {
		case *ssa.UnOp:
			if x.Op == token.MUL {
				if fa, ok := x.X.(*ssa.FieldAddr); ok && isNamed(deref(fa.X.Type()), "syntax", "Position") {
					return true, ""
				}
			}
		case *ssa.Field:
			if isNamed(x.X.Type(), "syntax", "Position") {
				return true, ""
			}
		case *ssa.Convert:
			return fromPos(x.X, depth+1)
		case *ssa.Phi:
			for _, e := range x.Edges {
				if ok, why := fromPos(e, depth+1); !ok {
					return false, why
				}
			}
			return true, ""
		case *ssa.Const:
			return false, "a constant on some path"
		case *ssa.Extract:
			if call, ok := x.Tuple.(*ssa.Call); ok {
				if cal := call.Call.StaticCallee(); cal != nil && len(cal.Blocks) > 0 {
					for _, b := range cal.Blocks {
						if ret, ok := b.Instrs[len(b.Instrs)-1].(*ssa.Return); ok {
							if ok, why := fromPos(ret.Results[x.Index], depth+1); !ok {
								return false, why + " (in " + fnName(cal) + ")"
							}
						}
					}
					return true, ""
				}
			}
		case *ssa.Call:
			if cal := x.Call.StaticCallee(); cal != nil && len(cal.Blocks) > 0 && cal.Signature.Results().Len() == 1 {
				for _, b := range cal.Blocks {
					if ret, ok := b.Instrs[len(b.Instrs)-1].(*ssa.Return); ok {
						if ok, why := fromPos(ret.Results[0], depth+1); !ok {
							return false, why + " (in " + fnName(cal) + ")"
						}
					}
				}
				return true, ""
			}
		}
		return false, fmt.Sprintf("%T", v)
	}
	for _, fn := range c.P.Funcs {
		if relPkg(fnPkgPath(fn)) != "internal/compile" {
			continue
		}
		var opParam *ssa.Parameter
		for _, p := range fn.Params {
			if isNamed(p.Type(), "internal/compile", "Opcode") {
				opParam = p
			}
		}
		if opParam == nil {
			continue
		}
		eachInstr(fn, func(in ssa.Instruction) {
			al, ok := in.(*ssa.Alloc)
			if !ok {
				return
			}
			st, ok := deref(al.Type()).Underlying().(*types.Struct)
			if !ok {
				return
			}
			// an instruction record: has an Opcode field stored from the parameter
			opField := -1
			stores := map[int][]ssa.Value{}
			storeAt := map[int][]*ssa.Store{}
			var uses []ssa.Instruction // reads of the whole record (it is appended to the block)
			for _, r := range *al.Referrers() {
				if ld, ok := r.(*ssa.UnOp); ok && ld.Op == token.MUL {
					uses = append(uses, ld)
				}
				fa, ok := r.(*ssa.FieldAddr)
				if !ok {
					continue
				}
				for _, rr := range *fa.Referrers() {
					if s, ok := rr.(*ssa.Store); ok && s.Addr == ssa.Value(fa) {
						stores[fa.Field] = append(stores[fa.Field], s.Val)
						storeAt[fa.Field] = append(storeAt[fa.Field], s)
						if s.Val == ssa.Value(opParam) {
							opField = fa.Field
						}
					}
				}
			}
			if opField < 0 {
				return
			}
			// the position fields: those of the type of Position.Line
			for i := 0; i < st.NumFields(); i++ {
				bt, ok := st.Field(i).Type().Underlying().(*types.Basic)
				if !ok || bt.Kind() != types.Int32 {
					continue
				}
				n++
				key := fmt.Sprintf("%s: instruction record field #%d", fnName(fn), i)
				pos := c.P.Pos(al.Pos())
				if len(stores[i]) == 0 {
					c.viol(key, pos, "a position field of the instruction record is never set: the instruction has no position")
					continue
				}
				bad := ""
				for _, v := range stores[i] {
					if ok, why := fromPos(v, 0); !ok {
						bad = why
					}
				}
				// set on every path: some store precedes each use of the record
				for _, u := range uses {
					covered := false
					for _, s := range storeAt[i] {
						if s.Block().Dominates(u.Block()) && (s.Block() != u.Block() || instrIndex(s) < instrIndex(u)) {
							covered = true
						}
					}
					if !covered && bad == "" {
						bad = "set on some paths only"
					}
				}
				if bad == "" {
					c.ok(key, pos, "set from the pending position on every path")
				} else {
					c.viol(key, pos, "a position field of the instruction record is not the pending position on every path ("+bad+"): whether an instruction is positioned depends on something other than setPos - an opcode that is left out is reported at the position of an earlier instruction")
				}
			}
		})
	}
	c.note("%d position fields of instruction records", n)
}

// ---------- Z11: every way of making a Program sets the same fields ----------

func init() {
	register("Z11", "a program is what its encoding says: every place that constructs a starlark.Program - from source (FileProgram, the REPL, ExprFunc) or from the saved form (CompiledProgram) - sets the same fields. State that only the source path fills in (a list of names from the resolver, a cache) makes Init, Write or NumLoads behave differently for the decoded copy of the same program", 3, ruleZ11)
	claim("C17", "Z11")
}

func ruleZ11(c *Ctx) {
	type site struct {
		fn     *ssa.Function
		al     *ssa.Alloc
		fields string
	}
	var sites []site
	for _, fn := range c.P.Funcs {
		if !isProdPkg(fnPkgPath(fn)) {
			continue
		}
		eachInstr(fn, func(in ssa.Instruction) {
			al, ok := in.(*ssa.Alloc)
			if !ok || !isNamed(deref(al.Type()), "starlark", "Program") {
				return
			}
			st := deref(al.Type()).Underlying().(*types.Struct)
			set := map[string]bool{}
			for _, r := range *al.Referrers() {
				if fa, ok := r.(*ssa.FieldAddr); ok {
					for _, rr := range *fa.Referrers() {
						if s, ok := rr.(*ssa.Store); ok && s.Addr == ssa.Value(fa) {
							if k, isK := s.Val.(*ssa.Const); isK && k.Value == nil {
								continue // explicit zero
							}
							set[st.Field(fa.Field).Name()] = true
						}
					}
				}
			}
			var names []string
			for f := range set {
				names = append(names, f)
			}
			sort.Strings(names)
			sites = append(sites, site{fn, al, strings.Join(names, ",")})
		})
	}
	if len(sites) == 0 {
		return
	}
	// the reference: the field set used by most sites; ties cannot be resolved -> all differing sites are reported
	count := map[string]int{}
	for _, s := range sites {
		count[s.fields]++
	}
	ref, best := "", -1
	var keys []string
	for k := range count {
		keys = append(keys, k)
	}
	sort.Strings(keys)
	for _, k := range keys {
		// prefer the larger field set on a tie: the site that sets less is the incomplete one
		if count[k] > best || (count[k] == best && len(k) > len(ref)) {
			ref, best = k, count[k]
		}
	}
	union := map[string]bool{}
	for _, s := range sites {
		for _, f := range strings.Split(s.fields, ",") {
			union[f] = true
		}
	}
	ord := map[string]int{}
	for _, s := range sites {
		ord[fnName(s.fn)]++
		key := fmt.Sprintf("%s: Program constructed #%d", fnName(s.fn), ord[fnName(s.fn)])
		missing := []string{}
		for f := range union {
			if f != "" && !strings.Contains(","+s.fields+",", ","+f+",") {
				missing = append(missing, f)
			}
		}
		sort.Strings(missing)
		if len(missing) == 0 {
			c.ok(key, c.P.Pos(s.al.Pos()), "sets the same fields as every other construction site ("+s.fields+")")
		} else {
			c.viol(key, c.P.Pos(s.al.Pos()), fmt.Sprintf("this construction leaves %s unset while another one sets it: programs made here (for instance by decoding a saved program) differ from the same program compiled from source", strings.Join(missing, ", ")))
		}
	}
	_ = ref
}

// ---------- E16: comparing and hashing strings never decodes them ----------

func init() {
	register("E16", "strings are ordered, compared and hashed as bytes: no function that a comparison or hash method of a value type (CompareSameType, Cmp, Equal, Hash) reaches through direct calls inside the module decodes UTF-8 (unicode/utf8.DecodeRune*, DecodeLastRune*, a range loop over a string, a conversion to []rune). A Starlark string is an arbitrary byte sequence; decoding maps every ill-formed byte to U+FFFD, so an order computed on code points ties strings that == tells apart: both x <= y and x >= y hold while x != y, and sorted/min/max depend on input order", 8, ruleE16)
	claim("C11", "E16")
	claim("C12", "E16")
}

func ruleE16(c *Ctx) {
	n := 0
	decodes := func(f *ssa.Function) ssa.Instruction {
		var hit ssa.Instruction
		eachInstr(f, func(in ssa.Instruction) {
			if hit != nil {
				return
			}
			switch x := in.(type) {
			case *ssa.Call:
				if cal := x.Call.StaticCallee(); cal != nil && fnPkgPath(cal) == "unicode/utf8" && strings.HasPrefix(cal.Name(), "Decode") {
					hit = in
				}
			case *ssa.Range:
				if bt, ok := x.X.Type().Underlying().(*types.Basic); ok && bt.Info()&types.IsString != 0 {
					hit = in
				}
			case *ssa.Convert:
				if sl, ok := x.Type().Underlying().(*types.Slice); ok {
					if bt, ok := sl.Elem().Underlying().(*types.Basic); ok && bt.Kind() == types.Int32 {
						if st, ok := x.X.Type().Underlying().(*types.Basic); ok && st.Info()&types.IsString != 0 {
							hit = in
						}
					}
				}
			}
		})
		return hit
	}
	for _, fn := range c.P.Funcs {
		if !isProdPkg(fnPkgPath(fn)) || fn.Signature.Recv() == nil || fn.Parent() != nil {
			continue
		}
		switch fn.Name() {
		case "CompareSameType", "Cmp", "Equal", "Hash":
		default:
			continue
		}
		if fn.Synthetic != "" {
			continue
		}
		n++
		key := fmt.Sprintf("%s: byte-wise", fnName(fn))
		seen := map[*ssa.Function]bool{}
		var hit ssa.Instruction
		var via *ssa.Function
		var walk func(f *ssa.Function, depth int)
		walk = func(f *ssa.Function, depth int) {
			if seen[f] || hit != nil || depth > 6 {
				return
			}
			seen[f] = true
			if h := decodes(f); h != nil {
				hit, via = h, f
				return
			}
			eachInstr(f, func(in ssa.Instruction) {
				if call, ok := in.(*ssa.Call); ok {
					if cal := call.Call.StaticCallee(); cal != nil && len(cal.Blocks) > 0 && strings.HasPrefix(fnPkgPath(cal), modPath) && isProdPkg(fnPkgPath(cal)) {
						// error construction and printing are not part of the comparison
						if cal.Signature.Recv() != nil && (cal.Name() == "String" || cal.Name() == "Error") {
							return
						}
						walk(cal, depth+1)
					}
				}
			})
			for _, a := range f.AnonFuncs {
				walk(a, depth+1)
			}
		}
		walk(fn, 0)
		if hit == nil {
			c.ok(key, c.P.Pos(fn.Pos()), fmt.Sprintf("no UTF-8 decoding in the %d module functions it calls directly or indirectly", len(seen)))
		} else {
			c.viol(key, c.P.Pos(hit.Pos()), fmt.Sprintf("%s decodes UTF-8 on behalf of %s: ill-formed bytes all become U+FFFD, so distinct strings compare (or hash) as the same", fnName(via), fnName(fn)))
		}
	}
	c.note("%d comparison and hash methods", n)
}

// ---------- M7: an ignored Next() needs a known length ----------

func init() {
	register("M7", "an iterator is not read past its end unnoticed: Iterator.Next reports exhaustion through its result and leaves the variable untouched (nil) then. Every call of Next whose result is discarded is on a path where the length of the iterated value has been compared for equality with a constant (Len(pair) == 2 on this path), so the element is known to exist; accepting values of unknown length there plants a nil Value in a dict, which panics in the host at the next operation that touches it", 2, ruleM7)
	claim("C02", "M7")
}

func ruleM7(c *Ctx) {
	n := 0
	isLenCall := func(v ssa.Value) bool {
		call, ok := v.(*ssa.Call)
		if !ok {
			return false
		}
		if b, ok := call.Call.Value.(*ssa.Builtin); ok && b.Name() == "len" {
			return true
		}
		if call.Call.IsInvoke() && call.Call.Method.Name() == "Len" {
			return true
		}
		cal := call.Call.StaticCallee()
		return cal != nil && cal.Name() == "Len"
	}
	for _, fn := range c.P.Funcs {
		if !isProdPkg(fnPkgPath(fn)) {
			continue
		}
		ord := 0
		eachInstr(fn, func(in ssa.Instruction) {
			call, ok := in.(*ssa.Call)
			if !ok || !call.Call.IsInvoke() || call.Call.Method.Name() != "Next" {
				return
			}
			if !isNamed(call.Call.Value.Type(), "starlark", "Iterator") {
				return
			}
			used := false
			if refs := call.Referrers(); refs != nil {
				for _, r := range *refs {
					if _, dbg := r.(*ssa.DebugRef); !dbg {
						used = true
					}
				}
			}
			if used {
				return
			}
			n++
			ord++
			key := fmt.Sprintf("%s: Next with its result discarded #%d", fnName(fn), ord)
			known := false
			// what the iterator walks, when it was obtained in this function
			var src ssa.Value
			if ic, ok := call.Call.Value.(*ssa.Call); ok {
				if ic.Call.IsInvoke() && ic.Call.Method.Name() == "Iterate" {
					src = ic.Call.Value
				} else if cal := ic.Call.StaticCallee(); cal != nil && cal.Name() == "Iterate" && len(ic.Call.Args) == 1 {
					src = ic.Call.Args[0]
				}
			}
			lenOfSrc := func(v ssa.Value) bool {
				if !isLenCall(v) {
					return false
				}
				if src == nil {
					return false
				}
				lc := v.(*ssa.Call)
				var arg ssa.Value
				if lc.Call.IsInvoke() {
					arg = lc.Call.Value
				} else if len(lc.Call.Args) == 1 {
					arg = lc.Call.Args[0]
				}
				strip := func(x ssa.Value) ssa.Value {
					for {
						switch y := x.(type) {
						case *ssa.ChangeInterface:
							x = y.X
							continue
						case *ssa.MakeInterface:
							x = y.X
							continue
						}
						return x
					}
				}
				return arg != nil && (strip(arg) == strip(src) || sameOperand(strip(arg), strip(src)))
			}
			for _, pf := range pathFacts(call.Block()) {
				b, ok := pf.Cond.(*ssa.BinOp)
				if !ok {
					continue
				}
				_, kx := constInt(b.X)
				_, ky := constInt(b.Y)
				if !((lenOfSrc(b.X) && ky) || (lenOfSrc(b.Y) && kx)) {
					continue
				}
				if (b.Op == token.EQL && pf.Truth) || (b.Op == token.NEQ && !pf.Truth) {
					known = true
				}
			}
			// "length known" branch of a function that handles both cases (zip): a quantity computed from
			// Len() results is tested non-negative on this path, and bounds the loop
			for _, pf := range pathFacts(call.Block()) {
				b, ok := pf.Cond.(*ssa.BinOp)
				if !ok {
					continue
				}
				k, isK := constInt(b.Y)
				if !isK || k != 0 {
					continue
				}
				fromLen := false
				for x := range backSlice(b.X) {
					if isLenCall(x) {
						fromLen = true
					}
				}
				if src == nil && fromLen && ((b.Op == token.GEQ && pf.Truth) || (b.Op == token.LSS && !pf.Truth)) {
					known = true
				}
			}
			if !known && src == nil && fn.Parent() == nil && (fn.Object() == nil || !fn.Object().Exported()) {
				// a helper that is handed the iterators and the number of rows: the test is at its call sites
				sites, good := 0, 0
				for _, caller := range c.P.Funcs {
					eachInstr(caller, func(in2 ssa.Instruction) {
						c2, ok := in2.(*ssa.Call)
						if !ok || c2.Call.StaticCallee() != fn {
							return
						}
						sites++
						for _, pf := range pathFacts(c2.Block()) {
							b, ok := pf.Cond.(*ssa.BinOp)
							if !ok {
								continue
							}
							k, isK := constInt(b.Y)
							if !isK || k != 0 {
								continue
							}
							fromLen := false
							for x := range backSlice(b.X) {
								if isLenCall(x) {
									fromLen = true
								}
							}
							if fromLen && ((b.Op == token.GEQ && pf.Truth) || (b.Op == token.LSS && !pf.Truth)) {
								good++
								return
							}
						}
					})
				}
				if sites > 0 && sites == good {
					known = true
				}
			}
			if known {
				c.ok(key, c.P.Pos(call.Pos()), "the length was compared for equality with a constant on this path")
			} else {
				c.viol(key, c.P.Pos(call.Pos()), "the result of Next is discarded on a path where the number of elements is not known exactly: when the iterator is exhausted the variable stays nil and is used as a value")
			}
		})
	}
	c.note("%d calls of Next with the result discarded", n)
}

// ---------- E17: same first element is not same slice ----------

func init() {
	register("E17", "identity of storage is not identity of value for slices: two slices of one array (a tuple and its prefix t[:k], which Tuple.Slice returns without copying) start at the same element. Wherever the addresses of the first elements of two slices are compared to short-cut a comparison, the same function also compares their lengths for equality", 0, ruleE17)
	claim("C11", "E17")
	claim("C12", "E17")
}

func ruleE17(c *Ctx) {
	n := 0
	first := func(v ssa.Value) ssa.Value {
		ia, ok := v.(*ssa.IndexAddr)
		if !ok {
			return nil
		}
		if k, isK := constInt(ia.Index); !isK || k != 0 {
			return nil
		}
		if _, ok := ia.X.Type().Underlying().(*types.Slice); !ok {
			return nil
		}
		return ia.X
	}
	lenOf := func(v ssa.Value) ssa.Value {
		call, ok := v.(*ssa.Call)
		if !ok {
			return nil
		}
		if b, ok := call.Call.Value.(*ssa.Builtin); ok && b.Name() == "len" {
			return call.Call.Args[0]
		}
		return nil
	}
	for _, fn := range c.P.Funcs {
		if !isProdPkg(fnPkgPath(fn)) {
			continue
		}
		ord := 0
		eachInstr(fn, func(in ssa.Instruction) {
			b, ok := in.(*ssa.BinOp)
			if !ok || (b.Op != token.EQL && b.Op != token.NEQ) {
				return
			}
			x, y := first(b.X), first(b.Y)
			if x == nil || y == nil || x == y {
				return
			}
			n++
			ord++
			key := fmt.Sprintf("%s: first-element identity #%d", fnName(fn), ord)
			lens := false
			eachInstr(fn, func(in2 ssa.Instruction) {
				b2, ok := in2.(*ssa.BinOp)
				if !ok || (b2.Op != token.EQL && b2.Op != token.NEQ) {
					return
				}
				lx, ly := lenOf(b2.X), lenOf(b2.Y)
				if lx != nil && ly != nil && ((n9Same(lx, x) && n9Same(ly, y)) || (n9Same(lx, y) && n9Same(ly, x))) {
					lens = true
				}
			})
			if lens {
				c.ok(key, c.P.Pos(b.Pos()), "the lengths are compared as well")
			} else {
				c.viol(key, c.P.Pos(b.Pos()), "two slices are taken for the same value because they start at the same element, without comparing their lengths: a tuple and its own prefix compare equal")
			}
		})
	}
	c.note("%d first-element identity tests", n)
}

// ---------- O20: every legacy flag is read ----------

func init() {
	register("O20", "the deprecated flag-driven API honours every flag: each field of the FileOptions that syntax.LegacyFileOptions builds is loaded from a package-level variable (the resolver's Allow* flags, linked by name) at the time of the call - not a constant, and not a value computed once and cached - so that ExecFile, Eval and Parse accept exactly what the host's current flag settings allow", 4, ruleO20)
	claim("C09", "O20")
}

func ruleO20(c *Ctx) {
	n := 0
	for _, fn := range c.P.Funcs {
		if relPkg(fnPkgPath(fn)) != "syntax" || fn.Parent() != nil {
			continue
		}
		res := fn.Signature.Results()
		if res.Len() != 1 || fn.Signature.Params().Len() != 0 || fn.Signature.Recv() != nil {
			continue
		}
		pt, ok := res.At(0).Type().(*types.Pointer)
		if !ok || !isNamed(pt.Elem(), "syntax", "FileOptions") {
			continue
		}
		// the options built here
		eachInstr(fn, func(in ssa.Instruction) {
			al, ok := in.(*ssa.Alloc)
			if !ok || !isNamed(deref(al.Type()), "syntax", "FileOptions") {
				return
			}
			st := deref(al.Type()).Underlying().(*types.Struct)
			set := map[int]ssa.Value{}
			for _, r := range *al.Referrers() {
				if fa, ok := r.(*ssa.FieldAddr); ok {
					for _, rr := range *fa.Referrers() {
						if s, ok := rr.(*ssa.Store); ok && s.Addr == ssa.Value(fa) {
							set[fa.Field] = s.Val
						}
					}
				}
			}
			// the bridge from the legacy flags: at least one field comes from a package-level variable
			bridge := false
			for _, v := range set {
				if ld, ok := v.(*ssa.UnOp); ok && ld.Op == token.MUL {
					if _, isG := ld.X.(*ssa.Global); isG {
						bridge = true
					}
				}
			}
			if !bridge {
				return
			}
			for i := 0; i < st.NumFields(); i++ {
				if bt, ok := st.Field(i).Type().Underlying().(*types.Basic); !ok || bt.Kind() != types.Bool {
					continue
				}
				n++
				key := fmt.Sprintf("%s: FileOptions.%s", fnName(fn), st.Field(i).Name())
				v, isSet := set[i]
				if !isSet {
					c.viol(key, c.P.Pos(al.Pos()), "this option is not set from its legacy flag: the flag has no effect through the deprecated API")
					continue
				}
				ld, ok := v.(*ssa.UnOp)
				if ok && ld.Op == token.MUL {
					if _, isG := ld.X.(*ssa.Global); isG {
						c.ok(key, c.P.Pos(al.Pos()), "loaded from a package-level flag at the time of the call")
						continue
					}
				}
				c.viol(key, c.P.Pos(al.Pos()), fmt.Sprintf("this option is not loaded from its legacy flag (%T): the host's setting of the flag is ignored by ExecFile, Eval and Parse", v))
			}
		})
	}
	c.note("%d legacy option fields", n)
}

// ---------- E18: a literal's payload is read together with its token ----------

func init() {
	register("E18", "string and bytes literals are told apart by the token: syntax.Literal.Value holds a Go string for both \"abc\" and b\"abc\"; only Literal.Token says which. Every function of the compiler and of the value package that reads the Value of a Literal also reads that literal's Token - a conversion of the bare Value (a fast path that skips the compiler for an expression that is just a literal) turns b\"abc\" into the string \"abc\"", 1, ruleE18)
	claim("C15", "E18")
	claim("C01", "E18")
}

func ruleE18(c *Ctx) {
	n := 0
	for _, fn := range c.P.Funcs {
		pk := relPkg(fnPkgPath(fn))
		if pk != "starlark" && pk != "internal/compile" {
			continue
		}
		type use struct {
			base ssa.Value
			at   ssa.Instruction
		}
		var values []use
		tokens := map[ssa.Value]bool{}
		eachInstr(fn, func(in ssa.Instruction) {
			ld, ok := in.(*ssa.UnOp)
			if !ok || ld.Op != token.MUL {
				return
			}
			fa, ok := ld.X.(*ssa.FieldAddr)
			if !ok || !isNamed(deref(fa.X.Type()), "syntax", "Literal") {
				return
			}
			switch deref(fa.X.Type()).Underlying().(*types.Struct).Field(fa.Field).Name() {
			case "Value":
				// a plain x.Value.(T) is the statement of a fact the context supplies (the module string
				// of a load statement); what matters is the payload travelling on as an interface
				asserted := true
				if refs := ld.Referrers(); refs != nil {
					for _, r := range *refs {
						if _, dbg := r.(*ssa.DebugRef); dbg {
							continue
						}
						if ta, ok := r.(*ssa.TypeAssert); ok && !ta.CommaOk {
							continue
						}
						asserted = false
					}
				}
				if !asserted {
					values = append(values, use{fa.X, ld})
				}
			case "Token":
				tokens[fa.X] = true
			}
		})
		for i, u := range values {
			n++
			key := fmt.Sprintf("%s: Literal.Value read #%d", fnName(fn), i+1)
			ok := tokens[u.base]
			if !ok {
				for b := range tokens {
					if sameOperand(b, u.base) {
						ok = true
					}
				}
			}
			if ok {
				c.ok(key, c.P.Pos(u.at.Pos()), "the same literal's Token is read in this function")
			} else {
				c.viol(key, c.P.Pos(u.at.Pos()), "the Value of a literal is used without looking at its Token: a bytes literal and a string literal with the same text become the same value")
			}
		}
	}
	c.note("%d reads of Literal.Value in the compiler and the value package", n)
}

// ---------- Q10: floats are printed at double precision ----------

func init() {
	register("Q10", "a float is printed with enough digits to read it back: every strconv.FormatFloat and AppendFloat call in the module that formats with the shortest-representation precision (-1) passes the constant bit size 64. With bit size 32 the digits are the shortest that identify the nearest float32, which for a float64 value - even one that is exactly representable in single precision - denote a different float64 (1073741824.0 prints as 1.0737418e+09)", 2, ruleQ10)
	claim("C18", "Q10")
	claim("C15", "Q10")
}

func ruleQ10(c *Ctx) {
	n := 0
	for _, fn := range c.P.Funcs {
		if !isProdPkg(fnPkgPath(fn)) {
			continue
		}
		ord := 0
		eachInstr(fn, func(in ssa.Instruction) {
			call, ok := in.(*ssa.Call)
			if !ok {
				return
			}
			cal := call.Call.StaticCallee()
			if cal == nil || fnPkgPath(cal) != "strconv" || (cal.Name() != "FormatFloat" && cal.Name() != "AppendFloat") {
				return
			}
			bits := call.Call.Args[len(call.Call.Args)-1]
			n++
			ord++
			key := fmt.Sprintf("%s: %s bit size #%d", fnName(fn), cal.Name(), ord)
			if k, isK := constInt(bits); isK && k == 64 {
				c.ok(key, c.P.Pos(call.Pos()), "bit size 64")
			} else {
				c.viol(key, c.P.Pos(call.Pos()), "a float64 is formatted with a bit size other than the constant 64: the digits identify a float32 and do not read back as the same float64")
			}
		})
	}
	c.note("%d float formatting calls", n)
}

// ---------- J12: nothing fails before the handler is installed ----------

func init() {
	register("J12", "the handler is in place before anything can fail through it: in a function with a deferred handler that recovers the package's private failure value (json.decode), every call in the function's own body of one of its closures that can panic (fail, parse, ...) comes after the defer statement. A check added to the prologue that reports through fail() panics with nothing to catch it: the panic crosses the interpreter and takes the host down", 1, ruleJ12)
	claim("C18", "J12")
	claim("C02", "J12")
}

func ruleJ12(c *Ctx) {
	n := 0
	for _, fn := range c.P.Funcs {
		if !isProdPkg(fnPkgPath(fn)) || fn.Parent() != nil {
			continue
		}
		var handler *ssa.Defer
		eachInstr(fn, func(in ssa.Instruction) {
			d, ok := in.(*ssa.Defer)
			if !ok {
				return
			}
			body := deferredBody(d)
			if body == nil {
				return
			}
			eachInstr(body, func(in2 ssa.Instruction) {
				if call, ok := in2.(*ssa.Call); ok {
					if b, ok := call.Call.Value.(*ssa.Builtin); ok && b.Name() == "recover" {
						handler = d
					}
				}
			})
		})
		if handler == nil {
			continue
		}
		// closures of fn that can panic, directly or through each other
		panics := map[*ssa.Function]bool{}
		var all []*ssa.Function
		var collect func(f *ssa.Function)
		collect = func(f *ssa.Function) {
			for _, a := range f.AnonFuncs {
				all = append(all, a)
				collect(a)
			}
		}
		collect(fn)
		// ... and the functions and methods of the same package (a decoder type with a fail method)
		for _, g := range c.P.Funcs {
			if g != fn && g.Parent() == nil && fnPkgPath(g) == fnPkgPath(fn) && len(g.Blocks) > 0 {
				all = append(all, g)
				collect(g)
			}
		}
		for _, a := range all {
			eachInstr(a, func(in ssa.Instruction) {
				if p, ok := in.(*ssa.Panic); ok {
					// a failure value of a type of the module, not a "cannot happen" string
					if mi, ok := p.X.(*ssa.MakeInterface); ok {
						if pp, tn := namedOf(mi.X.Type()); tn != "" && strings.HasPrefix(pp, modPath) {
							panics[a] = true
						}
					}
				}
			})
		}
		calleeOf := func(f *ssa.Function, call *ssa.Call) *ssa.Function {
			if cal := call.Call.StaticCallee(); cal != nil {
				return cal
			}
			// a closure kept in a captured variable: *fv where the cell holds a MakeClosure
			if ld, ok := call.Call.Value.(*ssa.UnOp); ok && ld.Op == token.MUL {
				var cell ssa.Value = ld.X
				if fv, ok := cell.(*ssa.FreeVar); ok {
					for _, mc := range closureSites(f) {
						if b := freeVarBinding(mc, fv); b != nil {
							cell = b
						}
					}
				}
				if al, ok := cell.(*ssa.Alloc); ok {
					for _, r := range *al.Referrers() {
						if st, ok := r.(*ssa.Store); ok && st.Addr == ssa.Value(al) {
							if mc, ok := st.Val.(*ssa.MakeClosure); ok {
								return mc.Fn.(*ssa.Function)
							}
							if f2, ok := st.Val.(*ssa.Function); ok {
								return f2
							}
						}
					}
				}
			}
			return nil
		}
		for changed := true; changed; {
			changed = false
			for _, a := range all {
				if panics[a] {
					continue
				}
				eachInstr(a, func(in ssa.Instruction) {
					if call, ok := in.(*ssa.Call); ok {
						if cal := calleeOf(a, call); cal != nil && panics[cal] {
							panics[a] = true
							changed = true
						}
					}
				})
			}
		}
		ord := 0
		eachInstr(fn, func(in ssa.Instruction) {
			call, ok := in.(*ssa.Call)
			if !ok {
				return
			}
			cal := calleeOf(fn, call)
			if cal == nil || !panics[cal] {
				return
			}
			n++
			ord++
			key := fmt.Sprintf("%s: call of a failing closure #%d", fnName(fn), ord)
			after := handler.Block().Dominates(call.Block()) && (handler.Block() != call.Block() || instrIndex(handler) < instrIndex(call))
			if after {
				c.ok(key, c.P.Pos(call.Pos()), "after the recovering handler was installed")
			} else {
				c.viol(key, c.P.Pos(call.Pos()), "a closure that reports failure by panicking is called before the deferred handler that recovers the panic is installed: the panic is not caught here and crashes the host")
			}
		})
	}
	c.note("%d calls of failing closures in functions with a recovering handler", n)
}

// ---------- D8: the unordered enumeration of a proto map is not reachable from built-ins ----------

func init() {
	register("D8", "no built-in sees a proto map in Go's order: protoreflect.Map.Range visits entries in an unspecified, varying order. MapField.Iterate and Items collect and sort; the push iterator MapField.Entries, a convenience for Go callers, hands each entry to the caller's yield function as Range produces it. No function with the signature of a built-in, and no interpreter function, reaches such a yielding Range in the call graph (through starlark.Entries, which prefers a type's own Entries method) - otherwise dict(msg.map_field) and d.update(msg.map_field) would insert in an order that changes from run to run", 1, ruleD8)
	claim("C03", "D8")
}

func ruleD8(c *Ctx) {
	// functions whose Range callback passes the entries on to a caller-supplied function
	var sources []*ssa.Function
	for _, fn := range c.P.Funcs {
		if !isProdPkg(fnPkgPath(fn)) || fn.Parent() == nil {
			continue
		}
		// fn is a closure; is it the callback of a protoreflect Range, and does it call a function value it captured?
		isCallback := false
		for _, mc := range closureSites(fn) {
			if refs := mc.Referrers(); refs != nil {
				for _, r := range *refs {
					call, ok := r.(*ssa.Call)
					if !ok || !call.Call.IsInvoke() || call.Call.Method.Name() != "Range" {
						continue
					}
					if pp, _ := namedOf(call.Call.Value.Type()); strings.HasPrefix(pp, "google.golang.org/protobuf/") {
						isCallback = true
					}
				}
			}
		}
		if !isCallback {
			continue
		}
		yields := false
		eachInstr(fn, func(in ssa.Instruction) {
			call, ok := in.(*ssa.Call)
			if !ok || call.Call.IsInvoke() || call.Call.StaticCallee() != nil {
				return
			}
			if _, isB := call.Call.Value.(*ssa.Builtin); isB {
				return
			}
			yields = true // a call through a function value (a captured yield)
		})
		if yields {
			sources = append(sources, outermost(fn))
		}
	}
	isRoot := func(f *ssa.Function) bool {
		if !isProdPkg(fnPkgPath(f)) {
			return false
		}
		if methodIs(f, "starlark", "Function", "CallInternal") {
			return true
		}
		ps := f.Signature.Params()
		if ps.Len() != 4 || f.Signature.Recv() != nil {
			return false
		}
		pt, ok := ps.At(0).Type().(*types.Pointer)
		return ok && isNamed(pt.Elem(), "starlark", "Thread") && isNamed(ps.At(2).Type(), "starlark", "Tuple")
	}
	n := 0
	for _, src := range sources {
		n++
		key := fmt.Sprintf("%s: unordered enumeration", fnName(src))
		// backwards in the call graph
		type item struct {
			f    *ssa.Function
			path string
		}
		seen := map[*ssa.Function]bool{src: true}
		work := []item{{src, fnName(src)}}
		var hit string
		for len(work) > 0 && hit == "" {
			it := work[0]
			work = work[1:]
			node := c.P.CG().Nodes[it.f]
			if node == nil {
				continue
			}
			for _, e := range node.In {
				caller := outermost(e.Caller.Func)
				if seen[caller] || !isProdPkg(fnPkgPath(caller)) {
					continue
				}
				seen[caller] = true
				p := fnName(caller) + " -> " + it.path
				if isRoot(caller) {
					hit = p
					break
				}
				if len(seen) < 400 {
					work = append(work, item{caller, p})
				}
			}
		}
		if hit == "" {
			c.ok(key, c.P.Pos(src.Pos()), fmt.Sprintf("not reachable from any built-in or from the interpreter (%d callers examined)", len(seen)-1))
		} else {
			c.viol(key, c.P.Pos(src.Pos()), "entries are handed on in protoreflect.Map.Range order, which varies from run to run, and a built-in reaches this: "+hit)
		}
	}
	c.note("%d yielding Range enumerations", n)
}

// ---------- T11: every source of scanner input has its carriage returns normalised ----------

func init() {
	register("T11", "\\r\\n and \\r are newlines for every way text reaches the scanner: either the scanner's rune readers (the methods that take a byte from the unread input and return a rune) test it against '\\r', or every assignment of fresh text to the unread input - from readSource for whole files, and from the readline callback that ParseCompoundStmt uses for interactive input - passes it through a function that tests bytes against '\\r'. Normalising in readSource alone leaves the interactive path with raw carriage returns, which the scanner then rejects as unexpected characters", 1, ruleT11)
	claim("C14", "T11")
}

func ruleT11(c *Ctx) {
	scannerT := c.P.Named("syntax", "scanner")
	if scannerT == nil {
		c.anchorFail("syntax.scanner not found")
		return
	}
	isRestField := func(fa *ssa.FieldAddr) bool {
		if !isNamed(deref(fa.X.Type()), "syntax", "scanner") {
			return false
		}
		f := deref(fa.X.Type()).Underlying().(*types.Struct).Field(fa.Field)
		sl, ok := f.Type().Underlying().(*types.Slice)
		if !ok {
			return false
		}
		bt, ok := sl.Elem().Underlying().(*types.Basic)
		return ok && bt.Kind() == types.Uint8 && f.Name() == "rest"
	}
	wide := func(v ssa.Value) map[ssa.Value]bool {
		out := map[ssa.Value]bool{}
		var walk func(x ssa.Value, d int)
		walk = func(x ssa.Value, d int) {
			if x == nil || out[x] || d > 10 {
				return
			}
			out[x] = true
			switch y := x.(type) {
			case *ssa.BinOp:
				walk(y.X, d+1)
				walk(y.Y, d+1)
			case *ssa.Convert:
				walk(y.X, d+1)
			case *ssa.ChangeType:
				walk(y.X, d+1)
			case *ssa.Phi:
				for _, e := range y.Edges {
					walk(e, d+1)
				}
			case *ssa.Extract:
				walk(y.Tuple, d+1)
			case *ssa.Call:
				for _, a := range y.Call.Args {
					walk(a, d+1)
				}
			case *ssa.Slice:
				walk(y.X, d+1)
			case *ssa.IndexAddr:
				walk(y.X, d+1)
			case *ssa.Index:
				walk(y.X, d+1)
			case *ssa.Lookup:
				walk(y.X, d+1)
			case *ssa.UnOp:
				walk(y.X, d+1)
			}
		}
		walk(v, 0)
		return out
	}
	fromRest := func(v ssa.Value) bool {
		for x := range wide(v) {
			if ld, ok := x.(*ssa.UnOp); ok && ld.Op == token.MUL {
				if fa, ok := ld.X.(*ssa.FieldAddr); ok && isRestField(fa) {
					return true
				}
			}
		}
		return false
	}
	testsCR := func(f *ssa.Function) bool {
		found := false
		eachInstr(f, func(in ssa.Instruction) {
			b, ok := in.(*ssa.BinOp)
			if !ok || (b.Op != token.EQL && b.Op != token.NEQ) {
				return
			}
			if k, isK := constInt(b.Y); isK && k == '\r' {
				found = true
			}
			if k, isK := constInt(b.X); isK && k == '\r' {
				found = true
			}
			// bytes.IndexByte(data, '\r') and the like
		})
		if !found {
			eachInstr(f, func(in ssa.Instruction) {
				if call, ok := in.(*ssa.Call); ok {
					for _, a := range call.Call.Args {
						if k, isK := constInt(a); isK && k == '\r' {
							found = true
						}
					}
				}
			})
		}
		return found
	}
	// the rune readers
	var readers []*ssa.Function
	readersOK := true
	for _, fn := range c.P.Funcs {
		if relPkg(fnPkgPath(fn)) != "syntax" || fn.Signature.Recv() == nil || !isNamed(deref(fn.Signature.Recv().Type()), "syntax", "scanner") {
			continue
		}
		res := fn.Signature.Results()
		if res.Len() != 1 {
			continue
		}
		if bt, ok := res.At(0).Type().Underlying().(*types.Basic); !ok || bt.Kind() != types.Int32 {
			continue
		}
		returnsInput := false
		eachInstr(fn, func(in ssa.Instruction) {
			if ret, ok := in.(*ssa.Return); ok && len(ret.Results) == 1 && fromRest(ret.Results[0]) {
				returnsInput = true
			}
		})
		if !returnsInput {
			continue
		}
		readers = append(readers, fn)
		if !testsCR(fn) {
			readersOK = false
		}
	}
	if len(readers) == 0 {
		c.anchorFail("no rune reader of the scanner found")
		return
	}
	if readersOK {
		for _, r := range readers {
			c.ok(fmt.Sprintf("%s: carriage return", fnName(r)), c.P.Pos(r.Pos()), "the reader tests the byte against '\\r'")
		}
		return
	}
	// otherwise every source must be normalised
	var normalises func(f *ssa.Function, depth int, seen map[*ssa.Function]bool) bool
	normalises = func(f *ssa.Function, depth int, seen map[*ssa.Function]bool) bool {
		if f == nil || seen[f] || depth > 3 || len(f.Blocks) == 0 {
			return false
		}
		seen[f] = true
		if testsCR(f) {
			return true
		}
		found := false
		eachInstr(f, func(in ssa.Instruction) {
			if call, ok := in.(*ssa.Call); ok {
				if cal := call.Call.StaticCallee(); cal != nil && strings.HasPrefix(fnPkgPath(cal), modPath) && normalises(cal, depth+1, seen) {
					found = true
				}
			}
		})
		return found
	}
	n := 0
	for _, fn := range c.P.Funcs {
		if relPkg(fnPkgPath(fn)) != "syntax" {
			continue
		}
		ord := 0
		eachInstr(fn, func(in ssa.Instruction) {
			st, ok := in.(*ssa.Store)
			if !ok {
				return
			}
			fa, ok := st.Addr.(*ssa.FieldAddr)
			if !ok || !isRestField(fa) || fromRest(st.Val) {
				return
			}
			if k, isK := st.Val.(*ssa.Const); isK && k.Value == nil {
				return
			}
			n++
			ord++
			key := fmt.Sprintf("%s: fresh input #%d", fnName(fn), ord)
			good := false
			for x := range wide(st.Val) {
				if call, ok := x.(*ssa.Call); ok {
					if normalises(call.Call.StaticCallee(), 0, map[*ssa.Function]bool{}) {
						good = true
					}
				}
			}
			if good {
				c.ok(key, c.P.Pos(st.Pos()), "comes from a function that normalises carriage returns")
			} else {
				c.viol(key, c.P.Pos(st.Pos()), "the rune readers no longer treat '\\r' as a newline, and this text reaches the scanner without passing a function that does: input with DOS or old Mac line endings is rejected on this path")
			}
		})
	}
	if n == 0 {
		c.viol("scanner input", c.P.Pos(readers[0].Pos()), "neither the rune readers nor any input source handles '\\r'")
	}
}

// ---------- O21: a file-local binding at top level looks at the globals first ----------

func init() {
	register("O21", "the two tables of top-level names are consulted together: a name bound at top level lives either in the file block (names bound by load) or in the resolver's table of globals. The function that binds ordinary assignments looks in both before it creates a binding. Every other function of the resolver that creates a file-local binding directly (the load statement calling bindLocal) also looks the name up in the table of globals, with the found-flag used; otherwise `x = 1` followed by `load(\"m\", \"x\")` binds x twice at top level without the 'cannot reassign' error that the reverse order gets", 1, ruleO21)
	claim("C09", "O21")
}

func ruleO21(c *Ctx) {
	n := 0
	// the function that creates file-local bindings: called with the identifier, it stores into the
	// bindings map of the current block. Its direct callers are the binders.
	var bl *ssa.Function
	for _, fn := range c.P.Funcs {
		if relPkg(fnPkgPath(fn)) != "resolve" || fn.Signature.Recv() == nil || fn.Parent() != nil || !isNamed(deref(fn.Signature.Recv().Type()), "resolve", "resolver") {
			continue
		}
		// appends to Locals of the container or to the module's locals, and returns bool
		res := fn.Signature.Results()
		if res.Len() != 1 || fn.Signature.Params().Len() != 1 {
			continue
		}
		if bt, ok := res.At(0).Type().Underlying().(*types.Basic); !ok || bt.Kind() != types.Bool {
			continue
		}
		// creates a Binding and does not look at the table of globals itself
		makesBinding, touchesGlobals := false, false
		eachInstr(fn, func(in ssa.Instruction) {
			if al, ok := in.(*ssa.Alloc); ok && al.Heap && isNamed(deref(al.Type()), "resolve", "Binding") {
				makesBinding = true
			}
			if fa, ok := in.(*ssa.FieldAddr); ok {
				if isNamed(deref(fa.X.Type()), "resolve", "resolver") && deref(fa.X.Type()).Underlying().(*types.Struct).Field(fa.Field).Name() == "globals" {
					touchesGlobals = true
				}
			}
		})
		if !makesBinding && !touchesGlobals {
			// ... or leaves the creation to a helper (declareLocal) that does
			eachInstr(fn, func(in ssa.Instruction) {
				call, ok := in.(*ssa.Call)
				if !ok {
					return
				}
				cal := call.Call.StaticCallee()
				if cal == nil || relPkg(fnPkgPath(cal)) != "resolve" || len(cal.Blocks) == 0 {
					return
				}
				hm, hg := false, false
				eachInstr(cal, func(in2 ssa.Instruction) {
					if al, ok := in2.(*ssa.Alloc); ok && al.Heap && isNamed(deref(al.Type()), "resolve", "Binding") {
						hm = true
					}
					if fa, ok := in2.(*ssa.FieldAddr); ok {
						if isNamed(deref(fa.X.Type()), "resolve", "resolver") && deref(fa.X.Type()).Underlying().(*types.Struct).Field(fa.Field).Name() == "globals" {
							hg = true
						}
					}
				})
				if hm && !hg {
					makesBinding = true
				}
			})
		}
		if makesBinding && !touchesGlobals {
			bl = fn
		}
	}
	if bl == nil {
		c.anchorFail("the resolver's file-local binder (bindLocal) not found")
		return
	}
	readsGlobals := func(fn *ssa.Function) bool {
		found := false
		eachInstr(fn, func(in ssa.Instruction) {
			lk, ok := in.(*ssa.Lookup)
			if !ok || !lk.CommaOk {
				return
			}
			ld, ok := lk.X.(*ssa.UnOp)
			if !ok {
				return
			}
			fa, ok := ld.X.(*ssa.FieldAddr)
			if !ok || !isNamed(deref(fa.X.Type()), "resolve", "resolver") {
				return
			}
			if deref(fa.X.Type()).Underlying().(*types.Struct).Field(fa.Field).Name() != "globals" {
				return
			}
			// the found-flag is used
			if refs := lk.Referrers(); refs != nil {
				for _, r := range *refs {
					if ex, ok := r.(*ssa.Extract); ok && ex.Index == 1 && ex.Referrers() != nil && len(*ex.Referrers()) > 0 {
						found = true
					}
				}
			}
		})
		return found
	}
	for _, fn := range c.P.Funcs {
		if relPkg(fnPkgPath(fn)) != "resolve" {
			continue
		}
		calls := false
		var at ssa.Instruction
		eachInstr(fn, func(in ssa.Instruction) {
			if call, ok := in.(*ssa.Call); ok && call.Call.StaticCallee() == bl {
				calls = true
				at = in
			}
		})
		if !calls {
			continue
		}
		n++
		key := fmt.Sprintf("%s: binds a file-local name", fnName(fn))
		if readsGlobals(fn) {
			c.ok(key, c.P.Pos(at.Pos()), "looks the name up in the table of globals as well")
		} else {
			c.viol(key, c.P.Pos(at.Pos()), "a name is bound in the file block without looking at the table of globals: a load may silently rebind a name that a global declaration already bound (x = 1; load(\"m\", \"x\"))")
		}
	}
	c.note("%d binders of file-local names", n)
}
