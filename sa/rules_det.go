package main

import (
	"fmt"
	"go/token"
	"go/types"
	"sort"
	"strings"

	"golang.org/x/tools/go/ssa"
)

func init() {
	register("D1", "map iteration never leaks order: every range over a Go map in the production packages only feeds order-insensitive sinks (another map, Freeze, delete) or appends to a slice that is sorted before every return", 6, ruleD1)
	register("D3", "seeded hash containment: the maphash-seeded hashString is called only by String.Hash; Hash methods are called only by the hashtable, by other Hash methods and by nothing that turns the result into a Starlark value; the hash built-in does not reach hashString", 8, ruleD3)
	register("D4", "ambient sources: calls of time.Now, math/rand, os.Getpid/Environ/Getenv, maphash.MakeSeed and pointer-to-integer conversions occur only at named sites whose results never become script-visible values", 3, ruleD4)
}

func isSortCall(cal *ssa.Function) bool {
	if cal == nil {
		return false
	}
	switch fnPkgPath(cal) {
	case "sort":
		switch cal.Name() {
		case "Strings", "Sort", "Slice", "Stable", "SliceStable", "Ints":
			return true
		}
	case "slices":
		return strings.HasPrefix(cal.Name(), "Sort")
	}
	return false
}

func ruleD1(c *Ctx) {
	for _, fn := range c.P.Funcs {
		if !isProdPkg(fnPkgPath(fn)) {
			continue
		}
		ord := 0
		eachInstr(fn, func(in ssa.Instruction) {
			rg, ok := in.(*ssa.Range)
			if !ok {
				return
			}
			if _, isMap := rg.X.Type().Underlying().(*types.Map); !isMap {
				return
			}
			ord++
			key := fmt.Sprintf("%s: range over %s", fnName(fn), typeShort(rg.X.Type()))
			pos := c.P.Pos(rg.Pos())
			// values produced by the iteration
			var vals []ssa.Value
			for _, r := range *rg.Referrers() {
				if nx, ok := r.(*ssa.Next); ok {
					for _, r2 := range *nx.Referrers() {
						if ex, ok := r2.(*ssa.Extract); ok && ex.Index >= 1 {
							vals = append(vals, ex)
						}
					}
				}
			}
			// forward closure of values derived from them (field reads, conversions, composite literals)
			derived := map[ssa.Value]bool{}
			work := append([]ssa.Value{}, vals...)
			for _, v := range vals {
				derived[v] = true
			}
			var appended []ssa.Value
			bad := ""
			for len(work) > 0 {
				v := work[len(work)-1]
				work = work[:len(work)-1]
				refs := v.Referrers()
				if refs == nil {
					continue
				}
				for _, r := range *refs {
					switch x := r.(type) {
					case *ssa.MapUpdate:
						// order-insensitive
					case *ssa.Lookup, *ssa.If, *ssa.DebugRef:
					case *ssa.Store:
						// stored into a temp (variadic array, composite literal) or a field of a fresh struct
						if !derived[x.Addr] {
							if ia, ok := x.Addr.(*ssa.IndexAddr); ok {
								if _, isSlice := ia.X.Type().Underlying().(*types.Slice); isSlice && x.Val == v {
									// names[next] = name: filling a pre-sized slice, like append
									appended = append(appended, ia.X)
								} else if !derived[ia.X] {
									derived[ia.X] = true
									work = append(work, ia.X)
								}
							} else if fa, ok := x.Addr.(*ssa.FieldAddr); ok {
								if !derived[fa.X] {
									derived[fa.X] = true
									work = append(work, fa.X)
								}
							} else if a, ok := x.Addr.(*ssa.Alloc); ok {
								if !derived[a] {
									derived[a] = true
									work = append(work, a)
								}
							}
						}
					case *ssa.Call:
						cc := x.Common()
						if b, ok := cc.Value.(*ssa.Builtin); ok {
							switch b.Name() {
							case "append":
								appended = append(appended, x)
							case "delete", "len":
							default:
								bad = "passed to builtin " + b.Name()
							}
							continue
						}
						if cc.IsInvoke() && cc.Method.Name() == "Freeze" {
							continue
						}
						if cal := cc.StaticCallee(); cal != nil && (cal.Name() == "Freeze" || cal.Name() == "Has") {
							continue
						}
						bad = "passed to " + calleeName(x) + " at " + c.P.Pos(x.Pos())
					case ssa.Value:
						switch r.(type) {
						case *ssa.Field, *ssa.FieldAddr, *ssa.UnOp, *ssa.Convert, *ssa.ChangeType, *ssa.MakeInterface, *ssa.Slice, *ssa.IndexAddr, *ssa.Index, *ssa.Phi, *ssa.TypeAssert, *ssa.Extract, *ssa.BinOp, *ssa.ChangeInterface:
							if !derived[x] {
								derived[x] = true
								work = append(work, x)
							}
						default:
							bad = fmt.Sprintf("used by %T at %s", r, c.P.Pos(r.Pos()))
						}
					case *ssa.Return:
						bad = "returned directly"
					default:
					}
				}
			}
			if bad != "" {
				c.viol(key, pos, "a value obtained by ranging over a Go map (random order) is "+bad+": the order may become observable")
				return
			}
			if len(appended) == 0 {
				c.ok(key, pos, "feeds only order-insensitive sinks (map update, Freeze, delete, membership)")
				return
			}
			// family of the slice being appended to
			fam := map[ssa.Value]bool{}
			w2 := append([]ssa.Value{}, appended...)
			for _, a := range appended {
				fam[a] = true
			}
			for len(w2) > 0 {
				v := w2[len(w2)-1]
				w2 = w2[:len(w2)-1]
				if refs := v.Referrers(); refs != nil {
					for _, r := range *refs {
						switch x := r.(type) {
						case *ssa.Phi:
							if !fam[x] {
								fam[x] = true
								w2 = append(w2, x)
							}
						case *ssa.Store:
							if fa, ok := x.Addr.(*ssa.FieldAddr); ok && x.Val == v {
								// stored into a field: later loads of the same field of the same object
								eachInstr(fn, func(in3 ssa.Instruction) {
									if fb, ok := in3.(*ssa.FieldAddr); ok && fb.X == fa.X && fb.Field == fa.Field {
										for _, r3 := range *fb.Referrers() {
											if ld, ok := r3.(*ssa.UnOp); ok && ld.Op == token.MUL && !fam[ld] {
												fam[ld] = true
												w2 = append(w2, ld)
											}
										}
									}
								})
							}
							if a, ok := x.Addr.(*ssa.Alloc); ok && x.Val == v {
								for _, r2 := range *a.Referrers() {
									if ld, ok := r2.(*ssa.UnOp); ok && ld.Op == token.MUL && !fam[ld] {
										fam[ld] = true
										w2 = append(w2, ld)
									}
								}
							}
						case *ssa.ChangeType, *ssa.MakeInterface, *ssa.Slice:
							xv := r.(ssa.Value)
							if !fam[xv] {
								fam[xv] = true
								w2 = append(w2, xv)
							}
						case *ssa.Call:
							if b, ok := x.Call.Value.(*ssa.Builtin); ok && b.Name() == "append" && !fam[x] {
								fam[x] = true
								w2 = append(w2, x)
							}
						}
					}
				}
			}
			var sorts []ssa.Instruction
			eachInstr(fn, func(in2 ssa.Instruction) {
				call, ok := in2.(*ssa.Call)
				if !ok || !isSortCall(call.Call.StaticCallee()) || len(call.Call.Args) == 0 {
					return
				}
				if fam[call.Call.Args[0]] {
					sorts = append(sorts, in2)
				}
			})
			for _, srt := range sorts {
				call := srt.(*ssa.Call)
				if len(call.Call.Args) < 2 {
					continue
				}
				var cmpFn *ssa.Function
				switch x := call.Call.Args[1].(type) {
				case *ssa.MakeClosure:
					cmpFn, _ = x.Fn.(*ssa.Function)
				case *ssa.Function:
					cmpFn = x
				}
				if cmpFn == nil {
					continue
				}
				if why := notTotalOrder(cmpFn); why != "" {
					c.viol(key, pos, "the slice filled from a Go map range is sorted with a comparator that "+why+": elements it does not distinguish keep the random order of the map, so the result still varies from run to run")
					return
				}
			}
			if len(sorts) == 0 {
				c.viol(key, pos, "elements collected from a Go map range are appended to a slice that is never sorted in this function: callers observe Go's randomised map order (e.g. in attribute listings or 'did you mean' hints)")
				return
			}
			okAll := true
			eachInstr(fn, func(in2 ssa.Instruction) {
				if r, ok := in2.(*ssa.Return); ok {
					dom := false
					for _, s := range sorts {
						if instrDominates(s, r) {
							dom = true
						}
					}
					// returns inside/before the loop that do not return the slice are irrelevant; require domination only when the return can follow the range
					if !dom && (reachable(rg.Block(), r.Block()) || rg.Block() == r.Block()) {
						// does this return carry the slice?
						for _, res := range r.Results {
							if fam[res] {
								okAll = false
							}
						}
					}
				}
			})
			if okAll {
				c.ok(key, pos, "collected into a slice that is sorted before it is returned")
			} else {
				c.viol(key, pos, "the slice filled from a Go map range reaches a return that is not dominated by the sort")
			}
		})
	}
}

// notTotalOrder inspects a less-function used to sort map-derived elements: it must
// compare the two elements themselves (or fields of them) with < or >, without
// mapping them through a function first (strings.ToLower(a) < strings.ToLower(b)
// leaves "Limit" and "limit" in map order).
func notTotalOrder(fn *ssa.Function) string {
	why := ""
	var pure func(v ssa.Value, depth int) bool
	pure = func(v ssa.Value, depth int) bool {
		if depth > 8 {
			return false
		}
		switch x := v.(type) {
		case *ssa.UnOp:
			return pure(x.X, depth+1)
		case *ssa.IndexAddr:
			return pure(x.X, depth+1)
		case *ssa.Index:
			return pure(x.X, depth+1)
		case *ssa.FieldAddr:
			return pure(x.X, depth+1)
		case *ssa.Field:
			return pure(x.X, depth+1)
		case *ssa.ChangeType:
			return pure(x.X, depth+1)
		case *ssa.Convert:
			return pure(x.X, depth+1)
		case *ssa.TypeAssert:
			return pure(x.X, depth+1)
		case *ssa.Extract:
			return pure(x.Tuple, depth+1)
		case *ssa.FreeVar, *ssa.Parameter, *ssa.Alloc, *ssa.Const:
			return true
		}
		return false
	}
	eachInstr(fn, func(in ssa.Instruction) {
		ret, ok := in.(*ssa.Return)
		if !ok || len(ret.Results) != 1 || in.Parent() != fn {
			return
		}
		var check func(v ssa.Value, depth int)
		check = func(v ssa.Value, depth int) {
			if depth > 4 {
				return
			}
			switch x := v.(type) {
			case *ssa.BinOp:
				switch x.Op {
				case token.LSS, token.GTR, token.LEQ, token.GEQ, token.EQL, token.NEQ:
					if !pure(x.X, 0) || !pure(x.Y, 0) {
						why = "compares values computed from the elements (through a call or arithmetic) rather than the elements themselves"
					}
				}
			case *ssa.Phi:
				for _, e := range x.Edges {
					check(e, depth+1)
				}
			case *ssa.Const:
			case *ssa.Call:
				if cal := x.Call.StaticCallee(); cal != nil {
					switch cal.String() {
					case "strings.Compare", "cmp.Compare", "cmp.Less", "bytes.Compare":
						for _, a := range x.Call.Args {
							if !pure(a, 0) {
								why = "compares values computed from the elements rather than the elements themselves"
							}
						}
						return
					}
				}
				why = "delegates to " + calleeName(x) + ", which is not known to be a total order"
			}
		}
		check(ret.Results[0], 0)
	})
	return why
}

func typeShort(t types.Type) string {
	s := types.TypeString(t, func(p *types.Package) string { return p.Name() })
	return s
}

// ---------- D3 ----------

func ruleD3(c *Ctx) {
	hs := c.P.Func("starlark", "hashString")
	sh := c.P.Func("starlark", "String.Hash")
	hb := c.P.Func("starlark", "hash")
	if hs == nil || sh == nil || hb == nil {
		c.anchorFail("hashString / String.Hash / hash built-in not found")
		return
	}
	for _, fn := range c.P.Funcs {
		eachInstr(fn, func(in ssa.Instruction) {
			for _, op := range in.Operands(nil) {
				if f, ok := (*op).(*ssa.Function); ok && f == hs {
					key := fmt.Sprintf("%s: reference to hashString", fnName(fn))
					if fn.Name() == "Hash" && fn.Signature.Recv() != nil && fn.Parent() == nil {
						c.ok(key, c.P.Pos(in.Pos()), "inside a Hash method (result used for bucket selection only, see the caller census)")
					} else {
						c.viol(key, c.P.Pos(in.Pos()), "the per-process seeded hashString is used outside String.Hash: its value differs between processes and must never reach a script-visible result")
					}
				}
			}
		})
	}
	key := "starlark.hash built-in: deterministic"
	if reachesStatic(hb, hs, 30) || reachesStatic(hb, sh, 30) {
		c.viol(key, c.P.Pos(hb.Pos()), "the hash built-in reaches the seeded hash function: hash(x) differs from process to process")
	} else {
		c.ok(key, c.P.Pos(hb.Pos()), "does not reach hashString / String.Hash")
	}
	// callers of Hash methods
	var allowedTop func(fn *ssa.Function) string
	depthD3 := 0
	allowedTop = func(fn *ssa.Function) string {
		top := outermost(fn)
		// a private helper (e.g. hashKey) all of whose callers are allowed
		if depthD3 < 3 && top.Object() != nil && !top.Object().Exported() && top.Name() != "Hash" {
			isHT := top.Signature.Recv() != nil && qualType(top.Signature.Recv().Type()) == "starlark.hashtable"
			known := false
			if isHT {
				switch top.Name() {
				case "insert", "lookup", "delete", "count":
					known = true
				}
			}
			if !known {
				cs := callersOf(c.P, top)
				if len(cs) > 0 {
					depthD3++
					all := true
					for _, g := range cs {
						if outermost(g) == top {
							continue
						}
						if allowedTop(g) == "" {
							all = false
						}
					}
					depthD3--
					if all {
						return "private helper called only for bucket selection / by Hash methods"
					}
				}
			}
		}
		if top.Name() == "Hash" && top.Signature.Recv() != nil {
			return "another Hash method"
		}
		if top.Signature.Recv() != nil && qualType(top.Signature.Recv().Type()) == "starlark.hashtable" {
			switch top.Name() {
			case "insert", "lookup", "delete", "count":
				return "hashtable bucket selection"
			}
		}
		return ""
	}
	for _, fn := range c.P.Funcs {
		if !isProdPkg(fnPkgPath(fn)) {
			continue
		}
		eachInstr(fn, func(in ssa.Instruction) {
			ci, ok := in.(ssa.CallInstruction)
			if !ok {
				return
			}
			cc := ci.Common()
			isHash := false
			if cc.IsInvoke() && cc.Method.Name() == "Hash" && hasMethod(cc.Value.Type(), "Freeze") {
				isHash = true
			}
			if cal := cc.StaticCallee(); cal != nil && cal.Name() == "Hash" && cal.Signature.Recv() != nil && hasMethod(cal.Signature.Recv().Type(), "Freeze") {
				isHash = true
			}
			if !isHash {
				return
			}
			key := fmt.Sprintf("%s: call Hash", fnName(fn))
			if why := allowedTop(fn); why != "" {
				c.ok(key, c.P.Pos(in.Pos()), why)
			} else {
				c.viol(key, c.P.Pos(in.Pos()), "a value's Hash is obtained outside the hashtable and other Hash methods: seeded hash values may flow into results or ordering")
			}
		})
	}
}

// ---------- D4 ----------

var d4Allowed = map[string]string{
	"lib/time.init#1 / NowFunc":      "",
	"starlark.init:maphash.MakeSeed": "",
}

func ruleD4(c *Ctx) {
	ambient := map[string]bool{"time.Now": true, "os.Getpid": true, "os.Environ": true, "os.Getenv": true, "hash/maphash.MakeSeed": true, "os.Hostname": true, "time.Since": true,
		// recycled objects carry whatever an earlier (or concurrent) execution left in them
		"(*sync.Pool).Get": true,
		// hashing with a per-process seed
		"hash/maphash.Comparable": true, "hash/maphash.String": true, "hash/maphash.Bytes": true, "hash/maphash.WriteComparable": true}
	// allowedWhat narrows an allowance to one kind of source (prefix of the description)
	allowedWhat := map[string]string{
		"lib/time.init": "reference to time.Now",
	}
	allowedFn := map[string]string{
		"lib/time.init":                    "lib/time's NowFunc default: the documented, host-replaceable clock of the time module",
		"starlark.init":                    "per-process hash seed, confined to bucket selection (D3)",
		"starlark.profiler":                "profiler",
		"starlark.StartProfile":            "profiler",
		"(*starlark.Thread).beginProfSpan": "profiler",
		"(*starlark.Thread).endProfSpan":   "profiler",
		"starlark.nanotime":                "profiler clock",
		"starlark.profile":                 "profiler",
		"starlark.profFuncAddr":            "profiler: function address used as a profile key only",
		"starlark.noescape":                "escape-analysis helper: round-trips a pointer through uintptr, the integer is never observed",
		"(*starlark.hashtable).dump":       "debugging aid, unreachable from the API",
		"(*lib/proto.Message).Hash":        "identity hash of a message (lib/proto is outside this property's quantifier)",
		"starlark.init#1":                  "package initialisation",
		"starlark.hashString":              "the seeded string hash itself; its result is confined to bucket selection by rule D3",
		"lib/time.now":                     "time.now(): reads the host clock through NowFunc by design",
	}
	n := 0
	sort.Slice(c.P.InitFuncs, func(i, j int) bool { return c.P.InitFuncs[i].String() < c.P.InitFuncs[j].String() })
	for _, fn := range append(append([]*ssa.Function{}, c.P.Funcs...), c.P.InitFuncs...) {
		if !isProdPkg(fnPkgPath(fn)) {
			continue
		}
		eachInstr(fn, func(in ssa.Instruction) {
			what := ""
			switch x := in.(type) {
			case ssa.CallInstruction:
				if cal := x.Common().StaticCallee(); cal != nil {
					name := cal.String()
					if o := cal.Origin(); o != nil {
						name = o.String() // instantiation of a generic function
					}
					if ambient[name] || ambient[cal.String()] || strings.HasPrefix(cal.String(), "math/rand.") || strings.HasPrefix(cal.String(), "(*math/rand.") {
						what = "call " + cal.String()
					}
				}
				// function values: time.Now stored as a func value
				for _, op := range in.Operands(nil) {
					if f, ok := (*op).(*ssa.Function); ok && ambient[f.String()] && what == "" {
						what = "reference to " + f.String()
					}
				}
			case *ssa.Convert:
				// unsafe.Pointer -> uintptr
				if bt, ok := x.Type().Underlying().(*types.Basic); ok && bt.Kind() == types.Uintptr {
					if xb, ok := x.X.Type().Underlying().(*types.Basic); ok && xb.Kind() == types.UnsafePointer {
						what = "pointer-to-integer conversion"
					}
				}
			case *ssa.Store:
				for _, op := range in.Operands(nil) {
					if f, ok := (*op).(*ssa.Function); ok && ambient[f.String()] {
						what = "reference to " + f.String()
					}
				}
			}
			if what == "" {
				return
			}
			n++
			top := fnName(outermost(fn))
			key := fmt.Sprintf("%s: %s", fnName(fn), what)
			if top == "starlark.init" || strings.HasPrefix(top, "starlark.init#") || outermost(fn).Synthetic == "package initializer" {
				top = "starlark.init"
				if fnPkgPath(fn) != modPath+"/starlark" {
					top = relPkg(fnPkgPath(fn)) + ".init"
				}
			}
			if r, ok := allowedFn[top]; ok && strings.HasPrefix(what, allowedWhat[top]) {
				c.except(key, c.P.Pos(in.Pos()), r)
			} else if what == "pointer-to-integer conversion" && isIntRepr(fn) {
				c.except(key, c.P.Pos(in.Pos()), "small-int encoding in the pointer word of starlark.Int (a value, not an address)")
			} else {
				c.viol(key, c.P.Pos(in.Pos()), what+" in "+top+": an ambient, run-dependent quantity enters the interpreter outside the named sites")
			}
		})
	}
	if n == 0 {
		c.anchorFail("no ambient-source site found (expected the seed and the clock)")
	}
}

func isIntRepr(fn *ssa.Function) bool {
	pos := fn.Prog.Fset.Position(fn.Pos())
	return strings.HasSuffix(pos.Filename, "int_posix64.go") || strings.HasSuffix(pos.Filename, "int_generic.go")
}
