package main

// Rules added in the ninth seeding round.

import (
	"fmt"
	"go/constant"
	"go/token"
	"go/types"
	"strings"

	"golang.org/x/tools/go/ssa"
)

// ---------- M5: the iteration lock is released by the consumer, not by the iterator ----------

func init() {
	register("M5", "an iterator does not unlock its collection while an element is still being processed: in every Iterator.Next method of the module, no call of a Done method and no decrement of an itercount lies on a path that ends in `return true` - when Next hands out the last element the loop body has yet to run, so releasing the lock 'as soon as the iterator is exhausted' lets the body of the last (for a one-element collection: the only) iteration mutate the collection", 4, ruleM5)
	claim("C06", "M5")
}

func ruleM5(c *Ctx) {
	n := 0
	for _, fn := range c.P.Funcs {
		if !isProdPkg(fnPkgPath(fn)) || fn.Name() != "Next" || fn.Signature.Recv() == nil || fn.Signature.Results().Len() != 1 {
			continue
		}
		if bt, ok := fn.Signature.Results().At(0).Type().Underlying().(*types.Basic); !ok || bt.Kind() != types.Bool {
			continue
		}
		n++
		key := fnName(fn) + ": no release before the element is consumed"
		// blocks from which a `return true` (anything but a constant false) is reachable
		var trueRets []*ssa.BasicBlock
		eachInstr(fn, func(in ssa.Instruction) {
			if r, ok := in.(*ssa.Return); ok && len(r.Results) == 1 {
				if k, ok := r.Results[0].(*ssa.Const); ok && k.Value != nil && k.Value.String() == "false" {
					return
				}
				trueRets = append(trueRets, r.Block())
			}
		})
		bad := ""
		var at token.Pos
		var visit func(g *ssa.Function, depth int) bool // does g release a lock?
		visit = func(g *ssa.Function, depth int) bool {
			rel := false
			eachInstr(g, func(in ssa.Instruction) {
				if st, ok := in.(*ssa.Store); ok {
					if fa, ok := st.Addr.(*ssa.FieldAddr); ok {
						if deref(fa.X.Type()).Underlying().(*types.Struct).Field(fa.Field).Name() == "itercount" {
							if b, ok := st.Val.(*ssa.BinOp); ok && b.Op == token.SUB {
								rel = true
							}
						}
					}
				}
			})
			return rel
		}
		eachInstr(fn, func(in ssa.Instruction) {
			releases := false
			switch x := in.(type) {
			case *ssa.Store:
				if fa, ok := x.Addr.(*ssa.FieldAddr); ok {
					if deref(fa.X.Type()).Underlying().(*types.Struct).Field(fa.Field).Name() == "itercount" {
						if b, ok := x.Val.(*ssa.BinOp); ok && b.Op == token.SUB {
							releases = true
						}
					}
				}
			case ssa.CallInstruction:
				if _, isDefer := x.(*ssa.Defer); isDefer {
					return
				}
				cc := x.Common()
				if cc.IsInvoke() && cc.Method.Name() == "Done" {
					// Done of an inner iterator the adaptor owns is fine only when this iterator is exhausted
					releases = true
				}
				if cal := cc.StaticCallee(); cal != nil && strings.HasPrefix(fnPkgPath(cal), modPath) && len(cal.Blocks) > 0 {
					if cal.Name() == "Done" || visit(cal, 0) {
						releases = true
					}
				}
			}
			if !releases {
				return
			}
			for _, rb := range trueRets {
				if in.Block() == rb || reachable(in.Block(), rb) {
					bad = "a release"
					at = in.Pos()
				}
			}
		})
		if bad == "" {
			c.ok(key, c.P.Pos(fn.Pos()), "nothing on a path to `return true` releases the iteration lock")
		} else {
			c.viol(key, c.P.Pos(at), "Next releases the iteration lock (a Done call or an itercount decrement) on a path that still returns an element: the loop body for that element runs with the collection unlocked and can mutate it")
		}
	}
	if n == 0 {
		c.anchorFail("no Iterator.Next methods found")
	}
}

// ---------- P3: no deferred Done inside a loop ----------

func init() {
	register("P3", "an iterator obtained inside a loop is released inside the loop: no `defer it.Done()` (or deferred function literal that calls Done) is executed in a loop body - the deferred calls run when the function returns, so every operand stays locked until all of them have been consumed (s.update(s, [1, 2]) then fails with 'cannot insert into hash table during iteration')", 0, ruleP3)
	claim("C06", "P3")
}

func ruleP3(c *Ctx) {
	n := 0
	for _, fn := range c.P.Funcs {
		if !isProdPkg(fnPkgPath(fn)) || len(fn.Blocks) == 0 {
			continue
		}
		loops := naturalLoops(fn)
		ord := 0
		eachInstr(fn, func(in ssa.Instruction) {
			d, ok := in.(*ssa.Defer)
			if !ok {
				return
			}
			isDone := false
			if d.Call.IsInvoke() && d.Call.Method.Name() == "Done" {
				isDone = true
			}
			if cal := d.Call.StaticCallee(); cal != nil {
				if cal.Name() == "Done" {
					isDone = true
				}
				if cal.Parent() != nil {
					eachInstr(cal, func(in2 ssa.Instruction) {
						if ci, ok := in2.(ssa.CallInstruction); ok {
							cc := ci.Common()
							if (cc.IsInvoke() && cc.Method.Name() == "Done") || (cc.StaticCallee() != nil && cc.StaticCallee().Name() == "Done") {
								isDone = true
							}
						}
					})
				}
			}
			if !isDone {
				return
			}
			n++
			inLoop := false
			for _, l := range loops {
				if l[d.Block()] {
					inLoop = true
				}
			}
			ord++
			key := fmt.Sprintf("%s: deferred Done #%d", fnName(fn), ord)
			if r, ok := p3Exceptions[key]; ok && inLoop {
				c.except(key, c.P.Pos(d.Pos()), r)
				return
			}
			if inLoop {
				c.viol(key, c.P.Pos(d.Pos()), "Done is deferred inside a loop: the iterators of all rounds stay open (and their collections locked) until the function returns")
			} else {
				c.ok(key, c.P.Pos(d.Pos()), "deferred once, outside any loop")
			}
		})
	}
	c.note("%d deferred Done calls", n)
}

// ---------- S10: the step counter only counts up ----------

func init() {
	register("S10", "the step counter only counts up: every assignment to Thread.Steps stores the field's own previous value plus a positive constant; nothing resets it (an Uncancel that also zeroes Steps hands the thread a fresh budget after every cancellation) and nothing stores a copy kept elsewhere", 1, ruleS10)
	claim("C07", "S10")
	claim("C02", "S10")
}

func ruleS10(c *Ctx) {
	n := 0
	for _, fn := range c.P.Funcs {
		if !isProdPkg(fnPkgPath(fn)) {
			continue
		}
		ord := 0
		eachInstr(fn, func(in ssa.Instruction) {
			st, ok := in.(*ssa.Store)
			if !ok {
				return
			}
			fa, ok := st.Addr.(*ssa.FieldAddr)
			if !ok {
				return
			}
			if _, tn := namedOf(fa.X.Type()); tn != "Thread" {
				return
			}
			if deref(fa.X.Type()).Underlying().(*types.Struct).Field(fa.Field).Name() != "Steps" {
				return
			}
			n++
			ord++
			key := fmt.Sprintf("%s: store to Thread.Steps #%d", fnName(fn), ord)
			okInc := false
			if b, ok := st.Val.(*ssa.BinOp); ok && b.Op == token.ADD {
				if k, ok := constInt(b.Y); ok && k > 0 {
					if ld, ok := b.X.(*ssa.UnOp); ok && ld.Op == token.MUL {
						if fb, ok := ld.X.(*ssa.FieldAddr); ok && fb.Field == fa.Field && sameValue2(fb.X, fa.X) {
							okInc = true
						}
					}
				}
			}
			if okInc {
				c.ok(key, c.P.Pos(st.Pos()), "Steps = Steps + positive constant")
			} else {
				c.viol(key, c.P.Pos(st.Pos()), "Thread.Steps is assigned something other than its own value plus a positive constant: the count of executed steps goes back (or is replaced by a stale copy), so the step limit no longer bounds the work the thread does")
			}
		})
	}
	c.note("%d stores to Thread.Steps", n)
}

// ---------- E11: container hashes are built from element hashes ----------

func init() {
	register("E11", "a container's hash is built from its elements' own hashes: the Hash methods of Tuple and of the struct types hash each element by calling its Hash method through the Value interface and never look at the element's dynamic type; a private fast path for some element types (ints hashed from their two's-complement word) disagrees with Int.Hash for part of the range, so (n,) and (float(n),) are equal tuples with different hashes", 1, ruleE11)
	claim("C11", "E11")
	claim("C12", "E11")
}

func ruleE11(c *Ctx) {
	n := 0
	for _, fn := range c.P.Funcs {
		if !isProdPkg(fnPkgPath(fn)) || fn.Name() != "Hash" || fn.Signature.Recv() == nil {
			continue
		}
		rt := fn.Signature.Recv().Type()
		// containers of arbitrary values: a slice of Value, or a struct with a slice of entries holding Values
		holds := false
		switch u := deref(rt).Underlying().(type) {
		case *types.Slice:
			holds = valueLike(u)
		case *types.Struct:
			for i := 0; i < u.NumFields(); i++ {
				if sl, ok := u.Field(i).Type().Underlying().(*types.Slice); ok {
					if valueLike(sl) {
						holds = true
					}
					if st, ok := sl.Elem().Underlying().(*types.Struct); ok {
						for j := 0; j < st.NumFields(); j++ {
							if types.IsInterface(st.Field(j).Type()) && strings.HasSuffix(st.Field(j).Type().String(), "starlark.Value") {
								holds = true
							}
						}
					}
				}
			}
		}
		if !holds || len(naturalLoops(fn)) == 0 {
			continue // not a container, or a Hash that does not walk its elements (unhashable, or hashed by name)
		}
		n++
		key := fnName(fn) + ": elements hashed through Value.Hash"
		invokes, typed := 0, 0
		var at token.Pos
		eachInstr(fn, func(in ssa.Instruction) {
			switch x := in.(type) {
			case *ssa.Call:
				if x.Call.IsInvoke() && x.Call.Method.Name() == "Hash" {
					invokes++
				}
			case *ssa.TypeAssert:
				if types.IsInterface(x.X.Type()) && strings.HasSuffix(x.X.Type().String(), "starlark.Value") {
					typed++
					at = x.Pos()
				}
			}
		})
		switch {
		case typed > 0:
			c.viol(key, c.P.Pos(at), "the container's Hash inspects the dynamic type of its elements instead of calling their Hash method: a private hashing of some element types can disagree with the type's own Hash, so equal containers hash differently")
		case invokes == 0:
			c.viol(key, c.P.Pos(fn.Pos()), "the container's Hash never calls an element's Hash method")
		default:
			c.ok(key, c.P.Pos(fn.Pos()), "each element contributes through its own Hash method")
		}
	}
	if n == 0 {
		c.anchorFail("no container Hash methods found")
	}
}

// ---------- E12: comparisons see numbers, not bit patterns ----------

func init() {
	register("E12", "numeric comparison never looks at a float's sign bit or bit pattern: the functions that implement ordering and equality (CompareDepth, floatCmp, the CompareSameType and Cmp methods of the numeric types and what they call inside the package) do not call math.Signbit, math.Copysign or math.Float64bits; -0.0 and 0.0 are the same number, and a sign pre-test built on Signbit makes 0 > -0.0 while 0 == 0.0 and 0.0 == -0.0, so == is no longer transitive and dict lookups of -0.0 miss the key 0", 1, ruleE12)
	claim("C11", "E12")
}

func ruleE12(c *Ctx) {
	roots := map[*ssa.Function]bool{}
	for _, fn := range c.P.Funcs {
		if relPkg(fnPkgPath(fn)) != "starlark" {
			continue
		}
		switch fn.Name() {
		case "CompareDepth", "floatCmp", "Compare", "Equal", "EqualDepth", "threeway":
			if fn.Signature.Recv() == nil {
				roots[fn] = true
			}
		case "CompareSameType", "Cmp":
			if fn.Signature.Recv() != nil {
				roots[fn] = true
			}
		}
	}
	seen := map[*ssa.Function]bool{}
	var work []*ssa.Function
	for f := range roots {
		work = append(work, f)
	}
	n := 0
	bad := map[string]token.Pos{}
	for len(work) > 0 {
		f := work[0]
		work = work[1:]
		if seen[f] {
			continue
		}
		seen[f] = true
		n++
		eachInstr(f, func(in ssa.Instruction) {
			ci, ok := in.(ssa.CallInstruction)
			if !ok {
				return
			}
			cal := ci.Common().StaticCallee()
			if cal == nil {
				return
			}
			switch cal.String() {
			case "math.Signbit", "math.Copysign", "math.Float64bits", "math.Float32bits":
				bad[fnName(f)+" calls "+cal.String()] = in.Pos()
			}
			if relPkg(fnPkgPath(cal)) == "starlark" && len(cal.Blocks) > 0 && cal.Name() != "Hash" {
				work = append(work, cal)
			}
		})
	}
	key := "package starlark: comparison functions"
	if len(bad) == 0 {
		c.ok(key, "-", fmt.Sprintf("%d functions on the comparison paths: none looks at a sign bit or bit pattern", n))
	}
	for what, at := range bad {
		c.viol(key+": "+what, c.P.Pos(at), what+": a comparison that distinguishes -0.0 from 0.0 (or NaN payloads) contradicts ==, which does not")
	}
	if n < 3 {
		c.anchorFail("only %d comparison functions found", n)
	}
}

// ---------- L6: every function's code starts with a position ----------

func init() {
	register("L8", "every compiled function starts with a position: the compiler state created for a function (compile.fcomp) is initialised with the position of the def or lambda, so the line table has a row for pc 0; without it a call that fails on entry (a missing argument, forbidden recursion) is reported with no line or at a body expression that never ran", 1, ruleL8)
	claim("C16", "L8")
}

func ruleL8(c *Ctx) {
	n := 0
	for _, fn := range c.P.Funcs {
		if fnPkgPath(fn) != modPath+"/"+compilePkg {
			continue
		}
		ord := 0
		eachInstr(fn, func(in ssa.Instruction) {
			al, ok := in.(*ssa.Alloc)
			if !ok {
				return
			}
			if _, tn := namedOf(al.Type()); tn != "fcomp" {
				return
			}
			st := deref(al.Type()).Underlying().(*types.Struct)
			posIdx := -1
			for i := 0; i < st.NumFields(); i++ {
				if strings.HasSuffix(st.Field(i).Type().String(), "syntax.Position") {
					posIdx = i
				}
			}
			if posIdx < 0 {
				return
			}
			n++
			ord++
			key := fmt.Sprintf("%s: new fcomp #%d", fnName(fn), ord)
			set := false
			if refs := al.Referrers(); refs != nil {
				for _, r := range *refs {
					fa, ok := r.(*ssa.FieldAddr)
					if !ok || fa.Field != posIdx {
						continue
					}
					if fr := fa.Referrers(); fr != nil {
						for _, rr := range *fr {
							if s, ok := rr.(*ssa.Store); ok && s.Addr == ssa.Value(fa) {
								if _, isK := s.Val.(*ssa.Const); !isK {
									set = true
								}
							}
						}
					}
				}
			}
			if set {
				c.ok(key, c.P.Pos(al.Pos()), "its position field is initialised from the function's position")
			} else {
				c.viol(key, c.P.Pos(al.Pos()), "the per-function compiler state is created without a position: the first instructions of the function have no line-table entry, so an error raised on entry is reported at no position or at the wrong one")
			}
		})
	}
	if n == 0 {
		c.anchorFail("no allocation of compile.fcomp found")
	}
}

// ---------- B8: UnixNano is for hashing and display, not for ordering ----------

func init() {
	register("B8", "instants are ordered by the time package, not by their nanosecond count: in lib/time the result of (time.Time).UnixNano (undefined outside the years 1678-2262, where it wraps) is never compared or subtracted; it may be hashed or shown as an attribute. Ordering built on it puts the year 2300 before the year 2000 and makes two instants 2^64 ns apart equal", 1, ruleB8)
	claim("C19", "B8")
	claim("C11", "B8")
}

func ruleB8(c *Ctx) {
	n := 0
	for _, fn := range c.P.Funcs {
		if relPkg(fnPkgPath(fn)) != "lib/time" {
			continue
		}
		ord := 0
		eachInstr(fn, func(in ssa.Instruction) {
			call, ok := in.(*ssa.Call)
			if !ok {
				return
			}
			cal := call.Call.StaticCallee()
			if cal == nil || !(cal.String() == "(time.Time).UnixNano" || cal.String() == "(time.Time).UnixMicro" || cal.String() == "(time.Time).UnixMilli") {
				return
			}
			n++
			ord++
			key := fmt.Sprintf("%s: use of %s #%d", fnName(fn), cal.Name(), ord)
			bad := ""
			var at token.Pos
			seen := map[ssa.Value]bool{}
			var walk func(v ssa.Value, d int, f *ssa.Function)
			walk = func(v ssa.Value, d int, f *ssa.Function) {
				if seen[v] || d > 8 || v.Referrers() == nil {
					return
				}
				seen[v] = true
				for _, r := range *v.Referrers() {
					switch x := r.(type) {
					case *ssa.BinOp:
						switch x.Op {
						case token.LSS, token.LEQ, token.GTR, token.GEQ, token.EQL, token.NEQ, token.SUB:
							bad = x.Op.String()
							at = x.Pos()
						default:
							walk(x, d+1, f)
						}
					case *ssa.Convert:
						walk(x, d+1, f)
					case *ssa.ChangeType:
						walk(x, d+1, f)
					case *ssa.Phi:
						walk(x, d+1, f)
					case *ssa.Return:
						// a helper returning the count: follow it to its callers in the package
						for _, g := range c.P.Funcs {
							if relPkg(fnPkgPath(g)) != "lib/time" {
								continue
							}
							eachInstr(g, func(in2 ssa.Instruction) {
								if c2, ok := in2.(*ssa.Call); ok && c2.Call.StaticCallee() == f && f.Name() != "Hash" {
									walk(c2, d+1, g)
								}
							})
						}
					}
				}
			}
			walk(call, 0, fn)
			if bad == "" {
				c.ok(key, c.P.Pos(call.Pos()), "hashed, converted or returned as an attribute; never compared or subtracted")
			} else {
				c.viol(key, c.P.Pos(at), "the nanosecond count of an instant takes part in a comparison or subtraction ("+bad+"): it wraps for instants outside 1678-2262, so ordering and equality of such times are wrong")
			}
		})
	}
	if n == 0 {
		c.anchorFail("no use of (time.Time).UnixNano found in lib/time")
	}
}

var p3Exceptions = map[string]string{
	"starlark.updateDict: deferred Done #2": "the iterator over each key/value pair of dict.update(seq) is released only when update returns; nothing mutates the pairs in between (update writes the receiver only, and within one round the pair has been read completely before SetKey), so the late release cannot be observed",
}

// ---------- T9: the one-line form of a suite holds simple statements only ----------

func init() {
	register("T9", "a suite on the same line as its header is a simple statement: in the parser's suite function (called after the colon of def/if/for/while; it distinguishes a NEWLINE-INDENT block from the one-line form) the branch taken when the next token is not NEWLINE calls only functions that cannot produce a compound statement - no function from which an allocation of IfStmt, ForStmt, WhileStmt or DefStmt is reachable; the grammar is `suite = [newline indent {Statement} outdent] | SimpleStmt`, so `if a: if b: pass` is a syntax error", 1, ruleT9)
	claim("C14", "T9")
}

func ruleT9(c *Ctx) {
	suite := c.P.Func("syntax", "parser.parseSuite")
	if suite == nil {
		c.anchorFail("(*syntax.parser).parseSuite not found")
		return
	}
	// functions of package syntax that allocate a compound statement node
	compound := map[string]bool{"IfStmt": true, "ForStmt": true, "WhileStmt": true, "DefStmt": true}
	makers := map[*ssa.Function]bool{}
	var fns []*ssa.Function
	for _, fn := range c.P.Funcs {
		if relPkg(fnPkgPath(fn)) != "syntax" {
			continue
		}
		fns = append(fns, fn)
		eachInstr(fn, func(in ssa.Instruction) {
			if al, ok := in.(*ssa.Alloc); ok {
				if _, tn := namedOf(al.Type()); compound[tn] {
					makers[fn] = true
				}
			}
		})
	}
	if len(makers) < 3 {
		c.anchorFail("only %d functions allocating compound statements found", len(makers))
		return
	}
	// R: functions from which a maker is reachable by static calls (without passing through the suite
	// function itself, whose block form legitimately parses any statement)
	reach := map[*ssa.Function]bool{}
	for f := range makers {
		reach[f] = true
	}
	for changed := true; changed; {
		changed = false
		for _, fn := range fns {
			if reach[fn] || fn == suite {
				continue
			}
			eachInstr(fn, func(in ssa.Instruction) {
				if ci, ok := in.(ssa.CallInstruction); ok {
					if cal := ci.Common().StaticCallee(); cal != nil && reach[cal] && cal != suite {
						reach[fn] = true
					}
				}
			})
			if reach[fn] {
				changed = true
			}
		}
	}
	// the NEWLINE test
	nl := int64(-1)
	if k, ok := c.P.Pkg("syntax").Types.Scope().Lookup("NEWLINE").(*types.Const); ok {
		if v, ok := constIntOfConst(k); ok {
			nl = v
		}
	}
	var nlIf *ssa.If
	nlOnTrue := true
	eachInstr(suite, func(in ssa.Instruction) {
		ifi, ok := in.(*ssa.If)
		if !ok || nlIf != nil {
			return
		}
		if b, ok := ifi.Cond.(*ssa.BinOp); ok && (b.Op == token.EQL || b.Op == token.NEQ) {
			if k, isK := constInt(b.Y); isK && k == nl && strings.HasSuffix(b.Y.Type().String(), "syntax.Token") {
				nlIf = ifi
				nlOnTrue = b.Op == token.EQL
			}
		}
	})
	key := "(*syntax.parser).parseSuite: one-line form"
	if nlIf == nil {
		c.anchorFail("parseSuite: no test of the current token against NEWLINE found")
		return
	}
	bad := ""
	var at token.Pos
	n := 0
	eachInstr(suite, func(in ssa.Instruction) {
		call, ok := in.(*ssa.Call)
		if !ok {
			return
		}
		oneLine := false
		for _, pc := range pathConds(call.Block()) {
			if pc.If == nlIf && pc.Branch != nlOnTrue {
				oneLine = true
			}
		}
		if !oneLine {
			return
		}
		n++
		if cal := call.Call.StaticCallee(); cal != nil && reach[cal] {
			bad = fnName(cal)
			at = call.Pos()
		}
	})
	switch {
	case bad != "":
		c.viol(key, c.P.Pos(at), "the one-line form of a suite calls "+bad+", which can parse a compound statement: `if a: if b: pass` and `def f(): if a: return 1` are accepted although the grammar allows only a simple statement there")
	case n == 0:
		c.viol(key, c.P.Pos(nlIf.Pos()), "the one-line form of a suite parses nothing")
	default:
		c.ok(key, c.P.Pos(nlIf.Pos()), fmt.Sprintf("%d call(s) on the one-line branch, none can produce a compound statement", n))
	}
}

func constIntOfConst(k *types.Const) (int64, bool) {
	return constant.Int64Val(constant.ToInt(k.Val()))
}

// ---------- I16: signs are compared, not multiplied ----------

func init() {
	register("I16", "the sign of a float is never decided by a product: no comparison with zero has a floating-point multiplication as its other operand; `z*y < 0` is the same as 'z and y have opposite signs' in real arithmetic, but in float64 the product of two tiny numbers underflows to +-0 (and of two huge ones overflows), so the floored-modulo correction is skipped for -1e-200 % 3e-200", 0, ruleI16)
	claim("C10", "I16")
}

func ruleI16(c *Ctx) {
	n := 0
	for _, fn := range c.P.Funcs {
		pk := relPkg(fnPkgPath(fn))
		if !isProdPkg(fnPkgPath(fn)) || !(pk == "starlark" || strings.HasPrefix(pk, "lib/")) {
			continue
		}
		ord := 0
		eachInstr(fn, func(in ssa.Instruction) {
			b, ok := in.(*ssa.BinOp)
			if !ok {
				return
			}
			switch b.Op {
			case token.LSS, token.LEQ, token.GTR, token.GEQ, token.EQL, token.NEQ:
			default:
				return
			}
			for _, pr := range [][2]ssa.Value{{b.X, b.Y}, {b.Y, b.X}} {
				k, isK := pr[1].(*ssa.Const)
				if !isK || k.Value == nil {
					continue
				}
				bt, ok := pr[0].Type().Underlying().(*types.Basic)
				if !ok || bt.Info()&types.IsFloat == 0 || k.Float64() != 0 {
					continue
				}
				m, ok := pr[0].(*ssa.BinOp)
				if !ok || m.Op != token.MUL {
					continue
				}
				if _, c1 := m.X.(*ssa.Const); c1 {
					continue
				}
				if _, c2 := m.Y.(*ssa.Const); c2 {
					continue
				}
				n++
				ord++
				key := fmt.Sprintf("%s: product compared with zero #%d", fnName(fn), ord)
				c.viol(key, c.P.Pos(b.Pos()), "a floating-point product is compared with zero to learn the operands' signs: the product underflows to zero for small operands (and overflows for large ones), so the test gives the wrong answer exactly where exactness matters")
			}
		})
	}
	c.note("%d float products compared with zero", n)
}
