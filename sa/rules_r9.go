package main

// Rules added in the ninth seeding round.

import (
	"fmt"
	"go/constant"
	"go/token"
	"go/types"
	"math"
	"os"
	"strings"

	"golang.org/x/tools/go/ssa"
)

// ---------- M5: the iteration lock is released by the consumer, not by the iterator ----------

func init() {
	register("M5", "an iterator does not unlock its collection while an element is still being processed: in every Iterator.Next method of the module, no call of a Done method and no decrement of an itercount lies on a path that ends in `return true` - when Next hands out the last element the loop body has yet to run, so releasing the lock 'as soon as the iterator is exhausted' lets the body of the last (for a one-element collection: the only) iteration mutate the collection", 4, ruleM5)
	claim("C06", "M5")
}

func ruleM5(c *Ctx) {
	n := 0
	for _, fn := range c.P.Funcs {
		if !isProdPkg(fnPkgPath(fn)) || fn.Name() != "Next" || fn.Signature.Recv() == nil || fn.Signature.Results().Len() != 1 {
			continue
		}
		if bt, ok := fn.Signature.Results().At(0).Type().Underlying().(*types.Basic); !ok || bt.Kind() != types.Bool {
			continue
		}
		n++
		key := fnName(fn) + ": no release before the element is consumed"
		// blocks from which a `return true` (anything but a constant false) is reachable
		var trueRets []*ssa.BasicBlock
		eachInstr(fn, func(in ssa.Instruction) {
			if r, ok := in.(*ssa.Return); ok && len(r.Results) == 1 {
				if k, ok := r.Results[0].(*ssa.Const); ok && k.Value != nil && k.Value.String() == "false" {
					return
				}
				trueRets = append(trueRets, r.Block())
			}
		})
		bad := ""
		var at token.Pos
		var visit func(g *ssa.Function, depth int) bool // does g release a lock?
		visit = func(g *ssa.Function, depth int) bool {
			rel := false
			eachInstr(g, func(in ssa.Instruction) {
				if st, ok := in.(*ssa.Store); ok {
					if fa, ok := st.Addr.(*ssa.FieldAddr); ok {
						if deref(fa.X.Type()).Underlying().(*types.Struct).Field(fa.Field).Name() == "itercount" {
							if b, ok := st.Val.(*ssa.BinOp); ok && b.Op == token.SUB {
								rel = true
							}
						}
					}
				}
			})
			return rel
		}
		eachInstr(fn, func(in ssa.Instruction) {
			releases := false
			switch x := in.(type) {
			case *ssa.Store:
				if fa, ok := x.Addr.(*ssa.FieldAddr); ok {
					if deref(fa.X.Type()).Underlying().(*types.Struct).Field(fa.Field).Name() == "itercount" {
						if b, ok := x.Val.(*ssa.BinOp); ok && b.Op == token.SUB {
							releases = true
						}
					}
				}
			case ssa.CallInstruction:
				if _, isDefer := x.(*ssa.Defer); isDefer {
					return
				}
				cc := x.Common()
				if cc.IsInvoke() && cc.Method.Name() == "Done" {
					// Done of an inner iterator the adaptor owns is fine only when this iterator is exhausted
					releases = true
				}
				if cal := cc.StaticCallee(); cal != nil && strings.HasPrefix(fnPkgPath(cal), modPath) && len(cal.Blocks) > 0 {
					if cal.Name() == "Done" || visit(cal, 0) {
						releases = true
					}
				}
			}
			if !releases {
				return
			}
			for _, rb := range trueRets {
				if in.Block() == rb || reachable(in.Block(), rb) {
					bad = "a release"
					at = in.Pos()
				}
			}
		})
		if bad == "" {
			c.ok(key, c.P.Pos(fn.Pos()), "nothing on a path to `return true` releases the iteration lock")
		} else {
			c.viol(key, c.P.Pos(at), "Next releases the iteration lock (a Done call or an itercount decrement) on a path that still returns an element: the loop body for that element runs with the collection unlocked and can mutate it")
		}
	}
	if n == 0 {
		c.anchorFail("no Iterator.Next methods found")
	}
}

// ---------- P3: no deferred Done inside a loop ----------

func init() {
	register("P3", "an iterator obtained inside a loop is released inside the loop: no `defer it.Done()` (or deferred function literal that calls Done) is executed in a loop body - the deferred calls run when the function returns, so every operand stays locked until all of them have been consumed (s.update(s, [1, 2]) then fails with 'cannot insert into hash table during iteration')", 0, ruleP3)
	claim("C06", "P3")
}

func ruleP3(c *Ctx) {
	n := 0
	for _, fn := range c.P.Funcs {
		if !isProdPkg(fnPkgPath(fn)) || len(fn.Blocks) == 0 {
			continue
		}
		loops := naturalLoops(fn)
		ord := 0
		eachInstr(fn, func(in ssa.Instruction) {
			d, ok := in.(*ssa.Defer)
			if !ok {
				return
			}
			isDone := false
			if d.Call.IsInvoke() && d.Call.Method.Name() == "Done" {
				isDone = true
			}
			if cal := d.Call.StaticCallee(); cal != nil {
				if cal.Name() == "Done" {
					isDone = true
				}
				if cal.Parent() != nil {
					eachInstr(cal, func(in2 ssa.Instruction) {
						if ci, ok := in2.(ssa.CallInstruction); ok {
							cc := ci.Common()
							if (cc.IsInvoke() && cc.Method.Name() == "Done") || (cc.StaticCallee() != nil && cc.StaticCallee().Name() == "Done") {
								isDone = true
							}
						}
					})
				}
			}
			if !isDone {
				return
			}
			n++
			inLoop := false
			for _, l := range loops {
				if l[d.Block()] {
					inLoop = true
				}
			}
			ord++
			key := fmt.Sprintf("%s: deferred Done #%d", fnName(fn), ord)
			if r, ok := p3Exceptions[key]; ok && inLoop {
				c.except(key, c.P.Pos(d.Pos()), r)
				return
			}
			if inLoop {
				c.viol(key, c.P.Pos(d.Pos()), "Done is deferred inside a loop: the iterators of all rounds stay open (and their collections locked) until the function returns")
			} else {
				c.ok(key, c.P.Pos(d.Pos()), "deferred once, outside any loop")
			}
		})
	}
	c.note("%d deferred Done calls", n)
}

// ---------- S10: the step counter only counts up ----------

func init() {
	register("S10", "the step counter only counts up: every assignment to Thread.Steps stores the field's own previous value plus a positive constant; nothing resets it (an Uncancel that also zeroes Steps hands the thread a fresh budget after every cancellation) and nothing stores a copy kept elsewhere", 1, ruleS10)
	claim("C07", "S10")
	claim("C02", "S10")
}

func ruleS10(c *Ctx) {
	n := 0
	for _, fn := range c.P.Funcs {
		if !strings.HasPrefix(fnPkgPath(fn), modPath) {
			continue // every package of the module counts, the REPL and command packages included: they are host code a user copies
		}
		ord := 0
		eachInstr(fn, func(in ssa.Instruction) {
			st, ok := in.(*ssa.Store)
			if !ok {
				return
			}
			fa, ok := st.Addr.(*ssa.FieldAddr)
			if !ok {
				return
			}
			if _, tn := namedOf(fa.X.Type()); tn != "Thread" {
				return
			}
			if deref(fa.X.Type()).Underlying().(*types.Struct).Field(fa.Field).Name() != "Steps" {
				return
			}
			n++
			ord++
			key := fmt.Sprintf("%s: store to Thread.Steps #%d", fnName(fn), ord)
			okInc := false
			if b, ok := st.Val.(*ssa.BinOp); ok && b.Op == token.ADD {
				if k, ok := constInt(b.Y); ok && k > 0 {
					if ld, ok := b.X.(*ssa.UnOp); ok && ld.Op == token.MUL {
						if fb, ok := ld.X.(*ssa.FieldAddr); ok && fb.Field == fa.Field && sameValue2(fb.X, fa.X) {
							okInc = true
						}
					}
				}
			}
			if okInc {
				c.ok(key, c.P.Pos(st.Pos()), "Steps = Steps + positive constant")
			} else {
				c.viol(key, c.P.Pos(st.Pos()), "Thread.Steps is assigned something other than its own value plus a positive constant: the count of executed steps goes back (or is replaced by a stale copy), so the step limit no longer bounds the work the thread does")
			}
		})
	}
	c.note("%d stores to Thread.Steps", n)
}

// ---------- E11: container hashes are built from element hashes ----------

func init() {
	register("E11", "a container's hash is built from its elements' own hashes: the Hash methods of Tuple and of the struct types hash each element by calling its Hash method through the Value interface and never look at the element's dynamic type; a private fast path for some element types (ints hashed from their two's-complement word) disagrees with Int.Hash for part of the range, so (n,) and (float(n),) are equal tuples with different hashes", 1, ruleE11)
	claim("C11", "E11")
	claim("C12", "E11")
}

func ruleE11(c *Ctx) {
	n := 0
	for _, fn := range c.P.Funcs {
		if !isProdPkg(fnPkgPath(fn)) || fn.Name() != "Hash" || fn.Signature.Recv() == nil {
			continue
		}
		rt := fn.Signature.Recv().Type()
		// containers of arbitrary values: a slice of Value, or a struct with a slice of entries holding Values
		holds := false
		switch u := deref(rt).Underlying().(type) {
		case *types.Slice:
			holds = valueLike(u)
		case *types.Struct:
			for i := 0; i < u.NumFields(); i++ {
				if sl, ok := u.Field(i).Type().Underlying().(*types.Slice); ok {
					if valueLike(sl) {
						holds = true
					}
					if st, ok := sl.Elem().Underlying().(*types.Struct); ok {
						for j := 0; j < st.NumFields(); j++ {
							if types.IsInterface(st.Field(j).Type()) && strings.HasSuffix(st.Field(j).Type().String(), "starlark.Value") {
								holds = true
							}
						}
					}
				}
			}
		}
		if !holds || len(naturalLoops(fn)) == 0 {
			continue // not a container, or a Hash that does not walk its elements (unhashable, or hashed by name)
		}
		n++
		key := fnName(fn) + ": elements hashed through Value.Hash"
		invokes, typed := 0, 0
		var at token.Pos
		eachInstr(fn, func(in ssa.Instruction) {
			switch x := in.(type) {
			case *ssa.Call:
				if x.Call.IsInvoke() && x.Call.Method.Name() == "Hash" {
					invokes++
				}
			case *ssa.TypeAssert:
				if types.IsInterface(x.X.Type()) && strings.HasSuffix(x.X.Type().String(), "starlark.Value") {
					typed++
					at = x.Pos()
				}
			}
		})
		switch {
		case typed > 0:
			c.viol(key, c.P.Pos(at), "the container's Hash inspects the dynamic type of its elements instead of calling their Hash method: a private hashing of some element types can disagree with the type's own Hash, so equal containers hash differently")
		case invokes == 0:
			c.viol(key, c.P.Pos(fn.Pos()), "the container's Hash never calls an element's Hash method")
		default:
			c.ok(key, c.P.Pos(fn.Pos()), "each element contributes through its own Hash method")
		}
	}
	if n == 0 {
		c.anchorFail("no container Hash methods found")
	}
}

// ---------- E12: comparisons see numbers, not bit patterns ----------

func init() {
	register("E12", "numeric comparison never looks at a float's sign bit or bit pattern: the functions that implement ordering and equality (CompareDepth, floatCmp, the CompareSameType and Cmp methods of the numeric types and what they call inside the package) do not call math.Signbit, math.Copysign or math.Float64bits; -0.0 and 0.0 are the same number, and a sign pre-test built on Signbit makes 0 > -0.0 while 0 == 0.0 and 0.0 == -0.0, so == is no longer transitive and dict lookups of -0.0 miss the key 0", 1, ruleE12)
	claim("C11", "E12")
}

func ruleE12(c *Ctx) {
	roots := map[*ssa.Function]bool{}
	for _, fn := range c.P.Funcs {
		if relPkg(fnPkgPath(fn)) != "starlark" {
			continue
		}
		switch fn.Name() {
		case "CompareDepth", "floatCmp", "Compare", "Equal", "EqualDepth", "threeway":
			if fn.Signature.Recv() == nil {
				roots[fn] = true
			}
		case "CompareSameType", "Cmp":
			if fn.Signature.Recv() != nil {
				roots[fn] = true
			}
		}
	}
	seen := map[*ssa.Function]bool{}
	var work []*ssa.Function
	for f := range roots {
		work = append(work, f)
	}
	n := 0
	bad := map[string]token.Pos{}
	for len(work) > 0 {
		f := work[0]
		work = work[1:]
		if seen[f] {
			continue
		}
		seen[f] = true
		n++
		eachInstr(f, func(in ssa.Instruction) {
			ci, ok := in.(ssa.CallInstruction)
			if !ok {
				return
			}
			cal := ci.Common().StaticCallee()
			if cal == nil {
				return
			}
			switch cal.String() {
			case "math.Signbit", "math.Copysign", "math.Float64bits", "math.Float32bits":
				bad[fnName(f)+" calls "+cal.String()] = in.Pos()
			}
			if relPkg(fnPkgPath(cal)) == "starlark" && len(cal.Blocks) > 0 && cal.Name() != "Hash" {
				work = append(work, cal)
			}
		})
	}
	key := "package starlark: comparison functions"
	if len(bad) == 0 {
		c.ok(key, "-", fmt.Sprintf("%d functions on the comparison paths: none looks at a sign bit or bit pattern", n))
	}
	for what, at := range bad {
		c.viol(key+": "+what, c.P.Pos(at), what+": a comparison that distinguishes -0.0 from 0.0 (or NaN payloads) contradicts ==, which does not")
	}
	if n < 3 {
		c.anchorFail("only %d comparison functions found", n)
	}
}

// ---------- L6: every function's code starts with a position ----------

func init() {
	register("L8", "every compiled function starts with a position: the compiler state created for a function (compile.fcomp) is initialised with the position of the def or lambda, so the line table has a row for pc 0; without it a call that fails on entry (a missing argument, forbidden recursion) is reported with no line or at a body expression that never ran", 1, ruleL8)
	claim("C16", "L8")
}

func ruleL8(c *Ctx) {
	n := 0
	for _, fn := range c.P.Funcs {
		if fnPkgPath(fn) != modPath+"/"+compilePkg {
			continue
		}
		ord := 0
		eachInstr(fn, func(in ssa.Instruction) {
			al, ok := in.(*ssa.Alloc)
			if !ok {
				return
			}
			if _, tn := namedOf(al.Type()); tn != "fcomp" {
				return
			}
			st := deref(al.Type()).Underlying().(*types.Struct)
			posIdx := -1
			for i := 0; i < st.NumFields(); i++ {
				if strings.HasSuffix(st.Field(i).Type().String(), "syntax.Position") {
					posIdx = i
				}
			}
			if posIdx < 0 {
				return
			}
			n++
			ord++
			key := fmt.Sprintf("%s: new fcomp #%d", fnName(fn), ord)
			set := false
			if refs := al.Referrers(); refs != nil {
				for _, r := range *refs {
					fa, ok := r.(*ssa.FieldAddr)
					if !ok || fa.Field != posIdx {
						continue
					}
					if fr := fa.Referrers(); fr != nil {
						for _, rr := range *fr {
							if s, ok := rr.(*ssa.Store); ok && s.Addr == ssa.Value(fa) {
								if _, isK := s.Val.(*ssa.Const); !isK {
									set = true
								}
							}
						}
					}
				}
			}
			if set {
				c.ok(key, c.P.Pos(al.Pos()), "its position field is initialised from the function's position")
			} else {
				c.viol(key, c.P.Pos(al.Pos()), "the per-function compiler state is created without a position: the first instructions of the function have no line-table entry, so an error raised on entry is reported at no position or at the wrong one")
			}
		})
	}
	if n == 0 {
		c.anchorFail("no allocation of compile.fcomp found")
	}
}

// ---------- B8: UnixNano is for hashing and display, not for ordering ----------

func init() {
	register("B8", "instants are ordered by the time package, not by their nanosecond count: in lib/time the result of (time.Time).UnixNano (undefined outside the years 1678-2262, where it wraps) is never compared or subtracted; it may be hashed or shown as an attribute. Ordering built on it puts the year 2300 before the year 2000 and makes two instants 2^64 ns apart equal", 1, ruleB8)
	claim("C19", "B8")
	claim("C11", "B8")
}

func ruleB8(c *Ctx) {
	n := 0
	for _, fn := range c.P.Funcs {
		if relPkg(fnPkgPath(fn)) != "lib/time" {
			continue
		}
		ord := 0
		eachInstr(fn, func(in ssa.Instruction) {
			call, ok := in.(*ssa.Call)
			if !ok {
				return
			}
			cal := call.Call.StaticCallee()
			if cal == nil || !(cal.String() == "(time.Time).UnixNano" || cal.String() == "(time.Time).UnixMicro" || cal.String() == "(time.Time).UnixMilli") {
				return
			}
			n++
			ord++
			key := fmt.Sprintf("%s: use of %s #%d", fnName(fn), cal.Name(), ord)
			bad := ""
			var at token.Pos
			seen := map[ssa.Value]bool{}
			var walk func(v ssa.Value, d int, f *ssa.Function)
			walk = func(v ssa.Value, d int, f *ssa.Function) {
				if seen[v] || d > 8 || v.Referrers() == nil {
					return
				}
				seen[v] = true
				for _, r := range *v.Referrers() {
					switch x := r.(type) {
					case *ssa.BinOp:
						switch x.Op {
						case token.LSS, token.LEQ, token.GTR, token.GEQ, token.EQL, token.NEQ, token.SUB:
							bad = x.Op.String()
							at = x.Pos()
						default:
							walk(x, d+1, f)
						}
					case *ssa.Convert:
						walk(x, d+1, f)
					case *ssa.ChangeType:
						walk(x, d+1, f)
					case *ssa.Phi:
						walk(x, d+1, f)
					case *ssa.Return:
						// a helper returning the count: follow it to its callers in the package
						for _, g := range c.P.Funcs {
							if relPkg(fnPkgPath(g)) != "lib/time" {
								continue
							}
							eachInstr(g, func(in2 ssa.Instruction) {
								if c2, ok := in2.(*ssa.Call); ok && c2.Call.StaticCallee() == f && f.Name() != "Hash" {
									walk(c2, d+1, g)
								}
							})
						}
					}
				}
			}
			walk(call, 0, fn)
			if bad == "" {
				c.ok(key, c.P.Pos(call.Pos()), "hashed, converted or returned as an attribute; never compared or subtracted")
			} else {
				c.viol(key, c.P.Pos(at), "the nanosecond count of an instant takes part in a comparison or subtraction ("+bad+"): it wraps for instants outside 1678-2262, so ordering and equality of such times are wrong")
			}
		})
	}
	if n == 0 {
		c.anchorFail("no use of (time.Time).UnixNano found in lib/time")
	}
}

var p3Exceptions = map[string]string{
	"starlark.updateDict: deferred Done #2": "the iterator over each key/value pair of dict.update(seq) is released only when update returns; nothing mutates the pairs in between (update writes the receiver only, and within one round the pair has been read completely before SetKey), so the late release cannot be observed",
}

// ---------- T9: the one-line form of a suite holds simple statements only ----------

func init() {
	register("T9", "a suite on the same line as its header is a simple statement: in the parser's suite function (called after the colon of def/if/for/while; it distinguishes a NEWLINE-INDENT block from the one-line form) the branch taken when the next token is not NEWLINE calls only functions that cannot produce a compound statement - no function from which an allocation of IfStmt, ForStmt, WhileStmt or DefStmt is reachable; the grammar is `suite = [newline indent {Statement} outdent] | SimpleStmt`, so `if a: if b: pass` is a syntax error", 1, ruleT9)
	claim("C14", "T9")
}

func ruleT9(c *Ctx) {
	suite := c.P.Func("syntax", "parser.parseSuite")
	if suite == nil {
		c.anchorFail("(*syntax.parser).parseSuite not found")
		return
	}
	// functions of package syntax that allocate a compound statement node
	compound := map[string]bool{"IfStmt": true, "ForStmt": true, "WhileStmt": true, "DefStmt": true}
	makers := map[*ssa.Function]bool{}
	var fns []*ssa.Function
	for _, fn := range c.P.Funcs {
		if relPkg(fnPkgPath(fn)) != "syntax" {
			continue
		}
		fns = append(fns, fn)
		eachInstr(fn, func(in ssa.Instruction) {
			if al, ok := in.(*ssa.Alloc); ok {
				if _, tn := namedOf(al.Type()); compound[tn] {
					makers[fn] = true
				}
			}
		})
	}
	if len(makers) < 3 {
		c.anchorFail("only %d functions allocating compound statements found", len(makers))
		return
	}
	// R: functions from which a maker is reachable by static calls (without passing through the suite
	// function itself, whose block form legitimately parses any statement)
	reach := map[*ssa.Function]bool{}
	for f := range makers {
		reach[f] = true
	}
	for changed := true; changed; {
		changed = false
		for _, fn := range fns {
			if reach[fn] || fn == suite {
				continue
			}
			eachInstr(fn, func(in ssa.Instruction) {
				if ci, ok := in.(ssa.CallInstruction); ok {
					if cal := ci.Common().StaticCallee(); cal != nil && reach[cal] && cal != suite {
						reach[fn] = true
					}
				}
			})
			if reach[fn] {
				changed = true
			}
		}
	}
	// the NEWLINE test
	nl := int64(-1)
	if k, ok := c.P.Pkg("syntax").Types.Scope().Lookup("NEWLINE").(*types.Const); ok {
		if v, ok := constIntOfConst(k); ok {
			nl = v
		}
	}
	var nlIf *ssa.If
	nlOnTrue := true
	eachInstr(suite, func(in ssa.Instruction) {
		ifi, ok := in.(*ssa.If)
		if !ok || nlIf != nil {
			return
		}
		if b, ok := ifi.Cond.(*ssa.BinOp); ok && (b.Op == token.EQL || b.Op == token.NEQ) {
			if k, isK := constInt(b.Y); isK && k == nl && strings.HasSuffix(b.Y.Type().String(), "syntax.Token") {
				nlIf = ifi
				nlOnTrue = b.Op == token.EQL
			}
		}
	})
	key := "(*syntax.parser).parseSuite: one-line form"
	if nlIf == nil {
		c.anchorFail("parseSuite: no test of the current token against NEWLINE found")
		return
	}
	bad := ""
	var at token.Pos
	n := 0
	eachInstr(suite, func(in ssa.Instruction) {
		call, ok := in.(*ssa.Call)
		if !ok {
			return
		}
		oneLine := false
		for _, pc := range pathConds(call.Block()) {
			if pc.If == nlIf && pc.Branch != nlOnTrue {
				oneLine = true
			}
		}
		if !oneLine {
			return
		}
		n++
		if cal := call.Call.StaticCallee(); cal != nil && reach[cal] {
			bad = fnName(cal)
			at = call.Pos()
		}
	})
	switch {
	case bad != "":
		c.viol(key, c.P.Pos(at), "the one-line form of a suite calls "+bad+", which can parse a compound statement: `if a: if b: pass` and `def f(): if a: return 1` are accepted although the grammar allows only a simple statement there")
	case n == 0:
		c.viol(key, c.P.Pos(nlIf.Pos()), "the one-line form of a suite parses nothing")
	default:
		c.ok(key, c.P.Pos(nlIf.Pos()), fmt.Sprintf("%d call(s) on the one-line branch, none can produce a compound statement", n))
	}
}

func constIntOfConst(k *types.Const) (int64, bool) {
	return constant.Int64Val(constant.ToInt(k.Val()))
}

// ---------- I16: signs are compared, not multiplied ----------

func init() {
	register("I16", "the sign of a float is never decided by a product: no comparison with zero has a floating-point multiplication as its other operand; `z*y < 0` is the same as 'z and y have opposite signs' in real arithmetic, but in float64 the product of two tiny numbers underflows to +-0 (and of two huge ones overflows), so the floored-modulo correction is skipped for -1e-200 % 3e-200", 0, ruleI16)
	claim("C10", "I16")
}

func ruleI16(c *Ctx) {
	n := 0
	for _, fn := range c.P.Funcs {
		pk := relPkg(fnPkgPath(fn))
		if !isProdPkg(fnPkgPath(fn)) || !(pk == "starlark" || strings.HasPrefix(pk, "lib/")) {
			continue
		}
		ord := 0
		eachInstr(fn, func(in ssa.Instruction) {
			b, ok := in.(*ssa.BinOp)
			if !ok {
				return
			}
			switch b.Op {
			case token.LSS, token.LEQ, token.GTR, token.GEQ, token.EQL, token.NEQ:
			default:
				return
			}
			for _, pr := range [][2]ssa.Value{{b.X, b.Y}, {b.Y, b.X}} {
				k, isK := pr[1].(*ssa.Const)
				if !isK || k.Value == nil {
					continue
				}
				bt, ok := pr[0].Type().Underlying().(*types.Basic)
				if !ok || bt.Info()&types.IsFloat == 0 || k.Float64() != 0 {
					continue
				}
				m, ok := pr[0].(*ssa.BinOp)
				if !ok || m.Op != token.MUL {
					continue
				}
				if _, c1 := m.X.(*ssa.Const); c1 {
					continue
				}
				if _, c2 := m.Y.(*ssa.Const); c2 {
					continue
				}
				n++
				ord++
				key := fmt.Sprintf("%s: product compared with zero #%d", fnName(fn), ord)
				c.viol(key, c.P.Pos(b.Pos()), "a floating-point product is compared with zero to learn the operands' signs: the product underflows to zero for small operands (and overflows for large ones), so the test gives the wrong answer exactly where exactness matters")
			}
		})
	}
	c.note("%d float products compared with zero", n)
}

// ---------- N16: the error of a numeric parse is looked at ----------

func init() {
	register("N16", "a numeric literal that does not fit is reported, not clamped: every call of strconv.ParseInt, ParseUint, ParseFloat or Atoi in the module has its error result tested or passed on; strconv returns the nearest representable value together with a range error, so discarding the error ('the syntax was checked above') turns 9223372036854775808 into MaxInt64", 6, ruleN16)
	claim("C18", "N16")
	claim("C14", "N16")
	claim("C10", "N16")
}

func ruleN16(c *Ctx) {
	n := 0
	for _, fn := range c.P.Funcs {
		if !isProdPkg(fnPkgPath(fn)) {
			continue
		}
		ord := map[string]int{}
		eachInstr(fn, func(in ssa.Instruction) {
			call, ok := in.(*ssa.Call)
			if !ok {
				return
			}
			cal := call.Call.StaticCallee()
			if cal == nil || fnPkgPath(cal) != "strconv" {
				return
			}
			switch cal.Name() {
			case "ParseInt", "ParseUint", "ParseFloat", "Atoi":
			default:
				return
			}
			n++
			kb := fmt.Sprintf("%s: error of strconv.%s", fnName(fn), cal.Name())
			ord[kb]++
			key := kb
			if ord[kb] > 1 {
				key = fmt.Sprintf("%s #%d", kb, ord[kb])
			}
			used := false
			if refs := call.Referrers(); refs != nil {
				for _, r := range *refs {
					ex, ok := r.(*ssa.Extract)
					if !ok || ex.Index != 1 {
						continue
					}
					if er := ex.Referrers(); er != nil {
						for _, rr := range *er {
							if _, dbg := rr.(*ssa.DebugRef); !dbg {
								used = true
							}
						}
					}
				}
			}
			if used {
				c.ok(key, c.P.Pos(call.Pos()), "the error result is used")
			} else {
				c.viol(key, c.P.Pos(call.Pos()), "the error of strconv."+cal.Name()+" is discarded: for a literal outside the target's range strconv returns the clamped extreme value and a range error, so the number silently becomes a different one")
			}
		})
	}
	c.note("%d strconv numeric parses", n)
}

// ---------- I17: conversions through big.Float keep full precision ----------

func init() {
	register("I17", "an integer becomes a float in one rounding: the value packages never set the precision or rounding mode of a big.Float ((*big.Float).SetPrec, SetMode; big.NewFloat is not used for conversion either): SetInt chooses a precision that holds the integer exactly, and Float64 then rounds once; a precision of 64 bits 'because a float64 has only 53' rounds twice and can land on the wrong side of a midpoint", 0, ruleI17)
	claim("C10", "I17")
}

func ruleI17(c *Ctx) {
	n := 0
	for _, fn := range c.P.Funcs {
		pk := relPkg(fnPkgPath(fn))
		if !isProdPkg(fnPkgPath(fn)) || !(pk == "starlark" || strings.HasPrefix(pk, "lib/") || pk == "starlarkstruct" || pk == "syntax") {
			continue
		}
		ord := 0
		eachInstr(fn, func(in ssa.Instruction) {
			call, ok := in.(*ssa.Call)
			if !ok {
				return
			}
			cal := call.Call.StaticCallee()
			if cal == nil {
				return
			}
			switch cal.String() {
			case "(*math/big.Float).SetPrec", "(*math/big.Float).SetMode":
				n++
				ord++
				c.viol(fmt.Sprintf("%s: %s #%d", fnName(fn), cal.Name(), ord), c.P.Pos(call.Pos()), "the precision or rounding mode of a big.Float is set by hand: a conversion that first rounds to that precision and then to float64 rounds twice, and the result can differ from the correctly rounded value by one unit in the last place")
			}
		})
	}
	c.note("%d explicit big.Float precision/mode settings", n)
}

// ---------- E13: the hash of a finite float is the hash of the equal integer ----------

func init() {
	register("E13", "a finite float hashes like the integer part it would compare equal to: every value (Float).Hash returns on a path where the float is finite is the result of the Int hash applied to a conversion of that very float (finiteFloatToInt(f).Hash()); a shortcut for some range ('floats above 2^64 have a zero low word') breaks hash(x) == hash(int(x)) there, so {2.0**70: 1}[2**70] is not found", 1, ruleE13)
	claim("C11", "E13")
	claim("C12", "E13")
}

func ruleE13(c *Ctx) {
	fn := c.P.Func("starlark", "Float.Hash")
	if fn == nil {
		c.anchorFail("(starlark.Float).Hash not found")
		return
	}
	recv := fn.Params[0]
	derivesFromRecv := func(v ssa.Value) bool {
		seen := map[ssa.Value]bool{}
		var walk func(x ssa.Value, d int) bool
		walk = func(x ssa.Value, d int) bool {
			if x == ssa.Value(recv) {
				return true
			}
			if seen[x] || d > 8 {
				return false
			}
			seen[x] = true
			switch y := x.(type) {
			case *ssa.Call:
				for _, a := range y.Call.Args {
					if walk(a, d+1) {
						return true
					}
				}
			case *ssa.Convert:
				return walk(y.X, d+1)
			case *ssa.ChangeType:
				return walk(y.X, d+1)
			case *ssa.Extract:
				return walk(y.Tuple, d+1)
			case *ssa.Phi:
				for _, e := range y.Edges {
					if !walk(e, d+1) {
						return false
					}
				}
				return len(y.Edges) > 0
			case *ssa.UnOp:
				if al, ok := y.X.(*ssa.Alloc); ok && y.Op == token.MUL {
					if refs := al.Referrers(); refs != nil {
						for _, r := range *refs {
							if st, ok := r.(*ssa.Store); ok && st.Addr == ssa.Value(al) {
								return walk(st.Val, d+1)
							}
						}
					}
				}
			}
			return false
		}
		return walk(v, 0)
	}
	n := 0
	eachInstr(fn, func(in ssa.Instruction) {
		ret, ok := in.(*ssa.Return)
		if !ok || len(ret.Results) == 0 {
			return
		}
		n++
		key := fmt.Sprintf("(starlark.Float).Hash: returned hash #%d", n)
		pos := c.P.Pos(ret.Pos())
		v := ret.Results[0]
		if _, isK := v.(*ssa.Const); isK {
			// a constant: only for non-finite floats
			if len(floatNonFiniteOnly(fn, ret.Block(), recv)) == 0 {
				c.ok(key, pos, "a constant, returned for NaN and the infinities only")
			} else {
				c.viol(key, pos, "a constant hash is returned for some finite floats: they no longer hash like the integers they are equal to")
			}
			return
		}
		okHash := false
		if ex, isEx := v.(*ssa.Extract); isEx {
			if call, isCall := ex.Tuple.(*ssa.Call); isCall {
				cal := call.Call.StaticCallee()
				if cal != nil && cal.Name() == "Hash" && len(call.Call.Args) > 0 && derivesFromRecv(call.Call.Args[0]) {
					if _, tn := namedOf(cal.Signature.Recv().Type()); tn == "Int" {
						okHash = true
					}
				}
			}
		}
		if okHash {
			c.ok(key, pos, "the Int hash of a conversion of the float itself")
		} else {
			c.viol(key, pos, "Float.Hash returns something other than the Int hash of the converted float: a finite float and the equal integer can hash differently, so a dict keyed by one is not found by the other")
		}
	})
	if n == 0 {
		c.anchorFail("(starlark.Float).Hash has no return")
	}
}

// floatNonFiniteOnly: the finite representatives that can reach block b (empty = only NaN/Inf can).
func floatNonFiniteOnly(fn *ssa.Function, b *ssa.BasicBlock, v ssa.Value) []float64 {
	var out []float64
	for _, r := range []float64{-math.MaxFloat64, -1e30, -1, 0, 1, 1e30, math.MaxFloat64} {
		if floatRepReach(fn.Blocks[0], b, v, r) {
			out = append(out, r)
		}
	}
	return out
}

// ---------- H11: a slot scan goes on after a hash collision ----------

func init() {
	register("H11", "a hash collision does not end the search: in every hashtable method, the loop over the slots of one bucket and the loop over the chain of buckets are left early only where the key comparison succeeded (the result of Equal is true) or failed with an error; a slot whose stored hash matches but whose key is different is skipped, not taken as the end of the bucket - `break` there hides every later entry of the bucket from delete and lookup", 3, ruleH11)
	claim("C12", "H11")
	claim("C11", "H11")
}

func ruleH11(c *Ctx) {
	n := 0
	eq := c.P.Func("starlark", "Equal")
	for _, fn := range c.P.Funcs {
		if relPkg(fnPkgPath(fn)) != "starlark" || fn.Signature.Recv() == nil || qualType(fn.Signature.Recv().Type()) != "starlark.hashtable" {
			continue
		}
		// only probing functions: they call Equal
		var eqCalls []*ssa.Call
		eachInstr(fn, func(in ssa.Instruction) {
			if call, ok := in.(*ssa.Call); ok && call.Call.StaticCallee() == eq && eq != nil {
				eqCalls = append(eqCalls, call)
			}
		})
		if len(eqCalls) == 0 {
			continue
		}
		loops := naturalLoops(fn)
		ord := 0
		// every key comparison lies in the same innermost loop as the hash test that admits it: if the
		// slot loop cannot be re-entered after a comparison, a key that differs ends the scan of the bucket
		for ei, ec := range eqCalls {
			var hashIf *ssa.If
			for _, pc := range pathConds(ec.Block()) {
				for _, f := range expandFact(pc.If.Cond, pc.Branch) {
					bo, ok := f.Cond.(*ssa.BinOp)
					if !ok || !((bo.Op == token.EQL && f.Truth) || (bo.Op == token.NEQ && !f.Truth)) {
						continue
					}
					for oi, o := range []ssa.Value{bo.X, bo.Y} {
						if _, otherConst := []ssa.Value{bo.Y, bo.X}[oi].(*ssa.Const); otherConst {
							continue
						}
						if ld, ok := o.(*ssa.UnOp); ok && ld.Op == token.MUL {
							if fa, ok := ld.X.(*ssa.FieldAddr); ok {
								if _, tn := namedOf(fa.X.Type()); tn == "entry" {
									hashIf = pc.If
								}
							}
						}
					}
				}
			}
			if hashIf == nil {
				continue
			}
			var inner map[*ssa.BasicBlock]bool
			for _, l := range loops {
				if l[hashIf.Block()] && (inner == nil || len(l) < len(inner)) {
					inner = l
				}
			}
			if inner == nil {
				continue
			}
			n++
			key := fmt.Sprintf("%s: key comparison #%d stays in the slot loop", fnName(fn), ei+1)
			if inner[ec.Block()] {
				c.ok(key, c.P.Pos(ec.Pos()), "after the comparison the scan of the bucket's slots can go on")
			} else {
				c.viol(key, c.P.Pos(ec.Pos()), "once a stored key with the probe's hash has been compared, the loop over the bucket's slots is never re-entered: a key that differs (a hash collision) ends the scan of this bucket, so later entries of the bucket are not found")
			}
		}
		var hs []*ssa.BasicBlock
		for h := range loops {
			hs = append(hs, h)
		}
		sortBlocks(hs)
		for _, h := range hs {
			loop := loops[h]
			// loops that contain a key comparison
			has := false
			for _, ec := range eqCalls {
				if loop[ec.Block()] {
					has = true
				}
			}
			if !has {
				continue
			}
			n++
			ord++
			key := fmt.Sprintf("%s: probing loop #%d", fnName(fn), ord)
			bad := ""
			var at token.Pos
			for _, b := range fn.Blocks {
				if !loop[b] {
					continue
				}
				for _, s := range b.Succs {
					if loop[s] {
						continue
					}
					// exit edge b -> s: allowed from the loop's own exhaustion tests (blocks that do not
					// come after a hash match), or where Equal said yes / failed
					conds := pathConds(b)
					if len(b.Instrs) > 0 {
						if x, ok := b.Instrs[len(b.Instrs)-1].(*ssa.If); ok && b.Succs[0] != b.Succs[1] {
							conds = append(conds, pathCond{x, b.Succs[0] == s})
						}
					}
					afterEqual := false
					found := false
					for _, ec := range eqCalls {
						if ec.Block() == b || ec.Block().Dominates(b) {
							if loop[ec.Block()] {
								afterEqual = true
							}
						}
					}
					if !afterEqual {
						continue
					}
					for _, pc := range conds {
						for _, f := range expandFact(pc.If.Cond, pc.Branch) {
							// eq == true
							if ex, ok := f.Cond.(*ssa.Extract); ok && f.Truth {
								if call, ok := ex.Tuple.(*ssa.Call); ok && call.Call.StaticCallee() == eq && ex.Index == 0 {
									found = true
								}
							}
							// err != nil
							if x, neq, ok := nilTest(f.Cond); ok && neq == f.Truth {
								if ex, ok := x.(*ssa.Extract); ok {
									if call, ok := ex.Tuple.(*ssa.Call); ok && call.Call.StaticCallee() == eq {
										found = true
									}
								}
							}
						}
					}
					if !found {
						bad = fmt.Sprintf("block %d -> %d", b.Index, s.Index)
						if len(b.Instrs) > 0 {
							at = b.Instrs[len(b.Instrs)-1].Pos()
						}
					}
				}
			}
			if bad == "" {
				c.ok(key, c.P.Pos(h.Instrs[0].Pos()), "after a key comparison the loop is left only if the keys are equal or the comparison failed")
			} else {
				if at == token.NoPos {
					at = fn.Pos()
				}
				c.viol(key, c.P.Pos(at), "the search leaves the loop ("+bad+") after comparing a key that turned out to be different: the remaining slots of the bucket (or buckets of the chain) are never examined, so entries stored after a colliding one cannot be found or deleted")
			}
		}
	}
	c.note("%d probing loops", n)
}

func sortBlocks(bs []*ssa.BasicBlock) {
	for i := 1; i < len(bs); i++ {
		for j := i; j > 0 && bs[j].Index < bs[j-1].Index; j-- {
			bs[j], bs[j-1] = bs[j-1], bs[j]
		}
	}
}

// ---------- J10: JSON white space is exactly space, tab, line feed and carriage return ----------

func init() {
	register("J10", "the decoder skips exactly the white space JSON defines: among the functions json.decode reaches, every loop that reads one input byte per round and goes round again for the space character (0x20) is interpreted abstractly for all 256 byte values, and the set of bytes for which it continues must be {0x09, 0x0A, 0x0D, 0x20} (RFC 8259); a test through unicode.IsSpace also skips vertical tab, form feed, NEL and NBSP, so documents that are not JSON are accepted. A loop whose test cannot be evaluated for some byte is reported, not passed", 1, ruleJ10)
	claim("C18", "J10")
}

func ruleJ10(c *Ctx) {
	var fns []*ssa.Function
	for f := range pkgReach(c.P, "lib/json", "decode") {
		fns = append(fns, f)
	}
	sortFuncs(fns)
	n := 0
	for _, fn := range fns {
		loops := naturalLoops(fn)
		var hs []*ssa.BasicBlock
		for h := range loops {
			hs = append(hs, h)
		}
		sortBlocks(hs)
		ord := 0
		for _, h := range hs {
			loop := loops[h]
			// byte reads in the loop: s[i] on a string, or a load from &b[i]
			var reads []ssa.Instruction
			for _, b := range fn.Blocks {
				if !loop[b] {
					continue
				}
				for _, in := range b.Instrs {
					v, ok := in.(ssa.Value)
					if !ok {
						continue
					}
					bt, isB := v.Type().Underlying().(*types.Basic)
					if !isB || bt.Kind() != types.Uint8 {
						continue
					}
					switch x := in.(type) {
					case *ssa.Lookup, *ssa.Index:
						reads = append(reads, in)
					case *ssa.UnOp:
						if _, ok := x.X.(*ssa.IndexAddr); ok && x.Op == token.MUL {
							reads = append(reads, in)
						}
					}
				}
			}
			if os.Getenv("VERIF_DEBUG") != "" {
				fmt.Fprintf(os.Stderr, "J10: %s loop@%d blocks=%d reads=%d\n", fnName(fn), h.Index, len(loop), len(reads))
			}
			if len(reads) != 1 {
				continue
			}
			rd := reads[0]
			// does the byte reach a classification function of package unicode?
			usesUnicode := false
			for v := range forwardValues(fn, rd.(ssa.Value)) {
				if call, ok := v.(*ssa.Call); ok {
					if cal := call.Call.StaticCallee(); cal != nil && fnPkgPath(cal) == "unicode" {
						usesUnicode = true
					}
				}
			}
			cont := map[int64]bool{}
			undet := 0
			for b := int64(0); b < 256; b++ {
				_, exited, ok := j6Run(fn, rd, rd.(ssa.Value), b, map[ssa.Value]bool{}, h)
				if !ok {
					undet++
					continue
				}
				if !exited {
					cont[b] = true
				}
			}
			if cont['a'] || cont['0'] || cont['"'] {
				continue // a loop that runs over ordinary characters (a string or number scan)
			}
			if !cont[0x20] && !(usesUnicode && undet > 0) {
				continue // not a white-space loop
			}
			n++
			ord++
			key := fmt.Sprintf("%s: white-space loop #%d", fnName(fn), ord)
			pos := c.P.Pos(rd.Pos())
			var extra, missing []string
			for b := int64(0); b < 256; b++ {
				want := b == 0x20 || b == 0x09 || b == 0x0a || b == 0x0d
				if cont[b] && !want {
					extra = append(extra, fmt.Sprintf("0x%02x", b))
				}
				if !cont[b] && want {
					missing = append(missing, fmt.Sprintf("0x%02x", b))
				}
			}
			switch {
			case undet > 0:
				c.viol(key, pos, fmt.Sprintf("the white-space test cannot be evaluated for %d byte values (it goes through a function the analysis does not interpret, such as unicode.IsSpace, whose notion of space is wider than JSON's)", undet))
			case len(extra) > 0 || len(missing) > 0:
				c.viol(key, pos, fmt.Sprintf("the loop skips %v in addition to, and fails to skip %v of, the four white-space characters of RFC 8259", extra, missing))
			default:
				c.ok(key, pos, "continues exactly for 0x09, 0x0A, 0x0D and 0x20")
			}
		}
	}
	if n == 0 {
		c.anchorFail("no white-space skipping loop found in json.decode")
	}
}

func sortFuncs(fs []*ssa.Function) {
	for i := 1; i < len(fs); i++ {
		for j := i; j > 0 && fnName(fs[j]) < fnName(fs[j-1]); j-- {
			fs[j], fs[j-1] = fs[j-1], fs[j]
		}
	}
}

// forwardValues: the values computed from v inside fn (through any instruction that uses them).
func forwardValues(fn *ssa.Function, v ssa.Value) map[ssa.Value]bool {
	out := map[ssa.Value]bool{v: true}
	work := []ssa.Value{v}
	for len(work) > 0 {
		x := work[0]
		work = work[1:]
		refs := x.Referrers()
		if refs == nil {
			continue
		}
		for _, r := range *refs {
			if rv, ok := r.(ssa.Value); ok && !out[rv] {
				out[rv] = true
				work = append(work, rv)
			}
		}
	}
	return out
}

// ---------- Q9: a \x escape stands for a byte, so Quote uses it for ASCII only ----------

func init() {
	register("Q9", "Quote writes \\xNN only for code points below 0x80: in a Starlark string literal \\xNN denotes the byte NN, not the code point, so for U+0080 and above the two differ (the byte 0x85 alone is invalid UTF-8, the code point U+0085 is two bytes). For every place in syntax.Quote that appends `\\x` followed by hex digits of the decoded rune, the rune is varied over every value from 0 to 0x2FF and the boundary code points beyond, the tests on the way - comparisons with constants, strconv.IsPrint, unicode predicates, interpreted where they are simple range tests and otherwise taken both ways - are decided, and no value of 0x80 or more may reach it", 1, ruleQ9)
	claim("C15", "Q9")
}

func ruleQ9(c *Ctx) {
	fn := c.P.Func("syntax", "Quote")
	if fn == nil {
		c.anchorFail("syntax.Quote not found")
		return
	}
	// the decoded rune: first result of utf8.DecodeRuneInString / DecodeRune
	var rn ssa.Value
	eachInstr(fn, func(in ssa.Instruction) {
		if ex, ok := in.(*ssa.Extract); ok && ex.Index == 0 {
			if call, ok := ex.Tuple.(*ssa.Call); ok {
				if cal := call.Call.StaticCallee(); cal != nil && fnPkgPath(cal) == "unicode/utf8" && strings.HasPrefix(cal.Name(), "DecodeRune") {
					rn = ex
				}
			}
		}
	})
	if rn == nil {
		c.anchorFail("syntax.Quote: no rune decoded with utf8.DecodeRune*")
		return
	}
	// the variable the rune is assigned to: `r := rune(s[0]); if r >= utf8.RuneSelf { r, width = utf8.DecodeRuneInString(s) }`
	// makes it a phi of the two
	if refs := rn.Referrers(); refs != nil {
		for _, r := range *refs {
			if phi, ok := r.(*ssa.Phi); ok {
				rn = phi
			}
		}
	}
	fromRune := forwardValues(fn, rn)
	n := 0
	// does this append emit the two characters \ and x (as a string constant or as two byte constants)?
	emitsBackslashX := func(call *ssa.Call) bool {
		b, ok := call.Call.Value.(*ssa.Builtin)
		if !ok || b.Name() != "append" || len(call.Call.Args) < 2 {
			return false
		}
		a := call.Call.Args[1]
		if cv, isConv := a.(*ssa.Convert); isConv {
			a = cv.X
		}
		if k, ok := a.(*ssa.Const); ok && k.Value != nil && constantStringVal(k) == `\x` {
			return true
		}
		// append(buf, '\\', 'x', ...): the variadic slice is filled from an array literal
		if sl, ok := a.(*ssa.Slice); ok {
			if al, ok := sl.X.(*ssa.Alloc); ok {
				vals := map[int64]int64{}
				if refs := al.Referrers(); refs != nil {
					for _, r := range *refs {
						ia, ok := r.(*ssa.IndexAddr)
						if !ok {
							continue
						}
						idx, ok := constInt(ia.Index)
						if !ok || ia.Referrers() == nil {
							continue
						}
						for _, rr := range *ia.Referrers() {
							if st, ok := rr.(*ssa.Store); ok {
								if k, ok := constInt(st.Val); ok {
									vals[idx] = k
								}
							}
						}
					}
				}
				for i, v := range vals {
					if v == '\\' && vals[i+1] == 'x' {
						return true
					}
				}
			}
		}
		return false
	}
	// helpers of the package that emit the \x form for a byte parameter
	hexHelper := map[*ssa.Function]bool{}
	for _, g := range c.P.Funcs {
		if relPkg(fnPkgPath(g)) != "syntax" || g == fn {
			continue
		}
		eachInstr(g, func(in ssa.Instruction) {
			if call, ok := in.(*ssa.Call); ok && emitsBackslashX(call) {
				hexHelper[g] = true
			}
		})
	}
	eachInstr(fn, func(in ssa.Instruction) {
		call, ok := in.(*ssa.Call)
		if !ok {
			return
		}
		viaHelper := false
		if cal := call.Call.StaticCallee(); cal != nil && hexHelper[cal] {
			for _, a := range call.Call.Args {
				// the byte or rune argument (not the buffer, which has seen earlier runes)
				if bt, ok := a.Type().Underlying().(*types.Basic); ok && bt.Info()&types.IsInteger != 0 && fromRune[a] {
					viaHelper = true
				}
			}
			if !viaHelper {
				return
			}
		} else if !emitsBackslashX(call) {
			return
		}
		// are the digits that follow taken from the rune (not from an input byte)?
		digitsFromRune := viaHelper
		for _, blk := range append([]*ssa.BasicBlock{call.Block()}, call.Block().Succs...) {
			for _, in2 := range blk.Instrs {
				switch x := in2.(type) {
				case *ssa.Index:
					if fromRune[x.Index] {
						digitsFromRune = true
					}
				case *ssa.Lookup:
					if fromRune[x.Index] {
						digitsFromRune = true
					}
				case *ssa.IndexAddr:
					if fromRune[x.Index] {
						digitsFromRune = true
					}
				}
			}
		}
		if !digitsFromRune {
			return
		}
		n++
		key := fmt.Sprintf("syntax.Quote: \\x escape of a rune #%d", n)
		pos := c.P.Pos(call.Pos())
		def := rn.(ssa.Instruction).Block()
		var reps []int64
		for r := int64(0); r < 0x300; r++ {
			reps = append(reps, r)
		}
		reps = append(reps, 0x7ff, 0x800, 0xd7ff, 0xd800, 0xdfff, 0xe000, 0xfffd, 0xffff, 0x10000, 0x10ffff, 0x110000)
		bad := int64(-1)
		for _, r := range reps {
			if r >= 0x80 && repReach(def, call.Block(), rn, r) {
				bad = r
				break
			}
		}
		if bad < 0 {
			c.ok(key, pos, "reachable only for code points below 0x80")
		} else {
			c.viol(key, pos, fmt.Sprintf("the \\x form is reachable for U+%04X: the literal then denotes the single byte 0x%02X, not the code point, so evaluating the quoted text does not give the original string back", bad, bad&0xff))
		}
	})
	if n == 0 {
		c.anchorFail("syntax.Quote: no \\x escape of a rune found")
	}
}

// ---------- E14: each operand is told which side it is on ----------

func init() {
	register("E14", "an operand's Binary method is told its true side: in the evaluator's fallback dispatch, the Binary method of the left operand is called with the constant Left and that of the right operand with the constant Right (the operand and the other value exchanged); a side computed at run time (a flag that is only flipped on some paths) makes `duration - time` reach Time.Binary as if it were `time - duration`", 1, ruleE14)
	claim("C19", "E14")
	claim("C01", "E14")
}

func ruleE14(c *Ctx) {
	fn := c.P.Func("starlark", "Binary")
	if fn == nil || len(fn.Params) < 3 {
		c.anchorFail("starlark.Binary not found")
		return
	}
	px, py := fn.Params[1], fn.Params[2]
	sideConst := func(name string) (bool, bool) {
		k, ok := c.P.Pkg("starlark").Types.Scope().Lookup(name).(*types.Const)
		if !ok {
			return false, false
		}
		return constant.BoolVal(k.Val()), true
	}
	left, ok1 := sideConst("Left")
	right, ok2 := sideConst("Right")
	if !ok1 || !ok2 {
		c.anchorFail("starlark.Left/Right not found")
		return
	}
	from := func(v ssa.Value) ssa.Value {
		for i := 0; i < 6; i++ {
			switch x := v.(type) {
			case *ssa.Extract:
				v = x.Tuple
			case *ssa.TypeAssert:
				v = x.X
			case *ssa.ChangeInterface:
				v = x.X
			case *ssa.Phi:
				// a loop variable that is x on one round and y on the other: undecided
				return nil
			default:
				return v
			}
		}
		return v
	}
	n := 0
	eachInstr(fn, func(in ssa.Instruction) {
		call, ok := in.(*ssa.Call)
		if !ok || !call.Call.IsInvoke() || call.Call.Method.Name() != "Binary" || len(call.Call.Args) != 3 {
			return
		}
		n++
		key := fmt.Sprintf("starlark.Binary: fallback dispatch #%d", n)
		pos := c.P.Pos(call.Pos())
		recv := from(call.Call.Value)
		other := from(call.Call.Args[1])
		sk, isK := call.Call.Args[2].(*ssa.Const)
		switch {
		case !isK || sk.Value == nil:
			c.viol(key, pos, "the side passed to an operand's Binary method is computed at run time, not a constant: on some path the right operand is told it stands on the left (or the reverse), and side-sensitive types then compute y op x for x op y")
		case recv == ssa.Value(px) && other == ssa.Value(py) && constant.BoolVal(sk.Value) == left:
			c.ok(key, pos, "the left operand's method, called with Left and the right operand")
		case recv == ssa.Value(py) && other == ssa.Value(px) && constant.BoolVal(sk.Value) == right:
			c.ok(key, pos, "the right operand's method, called with Right and the left operand")
		default:
			c.viol(key, pos, "receiver, other operand and side do not agree: the method of one operand is called with the side of the other")
		}
	})
	if n == 0 {
		c.anchorFail("starlark.Binary has no dynamic call of a Binary method")
	}
}

// ---------- V15: augmented assignment updates in place only where the language says so ----------

func init() {
	register("V15", "x += y and x |= y update x in place only for the types the specification names: where the interpreter (or a helper it calls) falls back to Binary(PLUS/PIPE, x, y) for the general case, the only other way the result is produced is the left operand itself after a successful type test for *List (+=) or *Dict (|=); an in-place arm for sets makes `b = a; b |= t` change a as well, although for sets `x |= y` means `x = x | y`", 2, ruleV15)
	claim("C12", "V15")
	claim("C01", "V15")
}

func ruleV15(c *Ctx) {
	bin := c.P.Func("starlark", "Binary")
	spk := c.P.Pkg("syntax")
	if bin == nil || spk == nil {
		c.anchorFail("starlark.Binary / package syntax not found")
		return
	}
	tokVal := func(name string) int64 {
		if k, ok := spk.Types.Scope().Lookup(name).(*types.Const); ok {
			v, _ := constant.Int64Val(constant.ToInt(k.Val()))
			return v
		}
		return -1
	}
	allowed := map[int64]string{tokVal("PLUS"): "List", tokVal("PIPE"): "Dict"}
	opName := map[int64]string{tokVal("PLUS"): "+=", tokVal("PIPE"): "|="}
	n := 0
	for _, fn := range c.P.Funcs {
		if relPkg(fnPkgPath(fn)) != "starlark" || fn == bin {
			continue
		}
		eachInstr(fn, func(in ssa.Instruction) {
			call, ok := in.(*ssa.Call)
			if !ok || call.Call.StaticCallee() != bin || len(call.Call.Args) != 3 {
				return
			}
			tok, ok := constInt(call.Call.Args[0])
			if !ok || allowed[tok] == "" {
				return
			}
			x := call.Call.Args[1]
			// the value the fallback result is merged with: a phi (or variable) that also receives the
			// in-place result
			var res ssa.Value
			if refs := call.Referrers(); refs != nil {
				for _, r := range *refs {
					if ex, ok := r.(*ssa.Extract); ok && ex.Index == 0 && ex.Referrers() != nil {
						for _, rr := range *ex.Referrers() {
							if phi, ok := rr.(*ssa.Phi); ok {
								res = phi
							}
						}
					}
				}
			}
			// or the fallback is returned directly by a helper (func inplacePipe(x, y) (Value, error)) whose
			// other returns hand back the in-place result
			var roots []ssa.Value
			if phi, ok := res.(*ssa.Phi); ok {
				roots = append(roots, phi)
			} else {
				returned := false
				eachInstr(fn, func(in2 ssa.Instruction) {
					if r, ok := in2.(*ssa.Return); ok && len(r.Results) > 0 {
						if ex, ok := r.Results[0].(*ssa.Extract); ok && ex.Tuple == ssa.Value(call) {
							returned = true
						}
					}
				})
				if returned {
					eachInstr(fn, func(in2 ssa.Instruction) {
						if r, ok := in2.(*ssa.Return); ok && len(r.Results) > 0 {
							roots = append(roots, r.Results[0])
						}
					})
				}
			}
			if len(roots) == 0 {
				return // no in-place alternative merged with the general case here
			}
			n++
			key := fmt.Sprintf("%s: in-place arm of %s", fnName(fn), opName[tok])
			bad := ""
			seen := map[ssa.Value]bool{}
			var walk func(v ssa.Value)
			walk = func(v ssa.Value) {
				if seen[v] {
					return
				}
				seen[v] = true
				switch y := v.(type) {
				case *ssa.Phi:
					for _, e := range y.Edges {
						walk(e)
					}
				case *ssa.MakeInterface:
					_, tn := namedOf(y.X.Type())
					src := y.X
					if ex, ok := src.(*ssa.Extract); ok {
						src = ex.Tuple
					}
					if ta, ok := src.(*ssa.TypeAssert); ok && (ta.X == x || sameValue2(ta.X, x)) {
						if tn != allowed[tok] {
							bad = tn
						}
					}
				}
			}
			for _, rv := range roots {
				walk(rv)
			}
			if bad == "" {
				c.ok(key, c.P.Pos(call.Pos()), "the left operand is returned as the result only as a *"+allowed[tok])
			} else {
				c.viol(key, c.P.Pos(call.Pos()), fmt.Sprintf("%s updates a %s in place and returns it: the specification defines in-place behaviour for %s only, every other type gets a new value, so other references to the left operand must not see the change", opName[tok], bad, strings.ToLower(allowed[tok])+"s"))
			}
		})
	}
	if n == 0 {
		c.anchorFail("no augmented-assignment arm with a Binary fallback found")
	}
}

// ---------- I18: negating a machine integer that may be the minimum ----------

func init() {
	register("I18", "a machine integer that may be the most negative value of its type is not negated: -x wraps back to x for MinInt32/MinInt64, so every negation of a 32- or 64-bit signed integer that comes from the script (an unpacked Go int, a small-int arm, a duration, a value that is only compared on the way) is performed where the minimum has been excluded - by a dominating test that the value is positive or differs from the minimum, decided by letting the value take the minimum and its neighbours and asking whether the negation is still reachable - or is a named site. `x - y` written as x + (-y) and an absolute value taken before printing a sign are the usual places: json.encode(-2147483648) must not print two minus signs", 0, ruleI18)
	claim("C10", "I18")
	claim("C19", "I18")
	claim("C18", "I18")
}

var i18Exceptions = map[string]string{
	"starlark.outOfRange: negation of int #1": "n is the length of the sequence being indexed (every caller passes Len()), so it is not negative; the negation only builds the error text",
	"starlark.signum64: negation of int64 #1": "Hacker's Delight sign function: uint64(-x)>>63 is meant to be evaluated modulo 2^64; for the minimum it is 1, which gives the correct sign -1",
	"starlark.rangeLen: negation of int #1":   "-step for step == MinInt wraps to MinInt; the quotient (start-1-stop)/-step is then 0 for every difference below 2^63 and the length 1 is correct (a step of magnitude 2^63 allows one element); larger differences are the recorded finding I6 'rangeLen: SUB'",
}

func ruleI18(c *Ctx) {
	n := 0
	for _, fn := range c.P.Funcs {
		pk := relPkg(fnPkgPath(fn))
		if !isProdPkg(fnPkgPath(fn)) || !(pk == "starlark" || strings.HasPrefix(pk, "lib/") || pk == "starlarkstruct") {
			continue
		}
		ord := 0
		eachInstr(fn, func(in ssa.Instruction) {
			// time.Duration.Abs saturates: Abs(MinInt64) is MaxInt64, one nanosecond short
			if call, ok := in.(*ssa.Call); ok {
				cal := call.Call.StaticCallee()
				if cal == nil || fnPkgPath(cal) != "time" || cal.Name() != "Abs" || cal.Signature.Recv() == nil || len(call.Call.Args) != 1 {
					return
				}
				n++
				ord++
				key := fmt.Sprintf("%s: absolute value of a duration #%d", fnName(fn), ord)
				min := int64(math.MinInt64)
				x := call.Call.Args[0]
				for {
					if cv, ok := x.(*ssa.ChangeType); ok {
						x = cv.X
						continue
					}
					if cv, ok := x.(*ssa.Convert); ok {
						x = cv.X
						continue
					}
					break
				}
				dom := newRepDomain(c.P, min, 0)
				dom.addConstsOf(fn)
				dom.reps[min], dom.reps[min+1] = true, true
				set, _ := dom.valueSetAt(x, call.Block(), map[ssa.Value]bool{}, 0)
				if !set[min] {
					c.ok(key, c.P.Pos(call.Pos()), "the most negative duration cannot reach Abs")
				} else {
					c.viol(key, c.P.Pos(call.Pos()), "time.Duration.Abs is applied where the duration can still be the most negative one: Abs saturates at the largest duration, so the result is one nanosecond short and (t - d) + d is no longer t")
				}
				return
			}
			u, ok := in.(*ssa.UnOp)
			if !ok || u.Op != token.SUB {
				return
			}
			bt, ok := u.Type().Underlying().(*types.Basic)
			if !ok || bt.Info()&types.IsInteger == 0 || bt.Info()&types.IsUnsigned != 0 {
				return
			}
			if _, isK := u.X.(*ssa.Const); isK {
				return
			}
			bits := int(c.P.sizes().Sizeof(bt)) * 8
			if bits < 32 {
				return
			}
			n++
			ord++
			key := fmt.Sprintf("%s: negation of %s #%d", fnName(fn), typeShort(u.Type()), ord)
			pos := c.P.Pos(u.Pos())
			min := int64(math.MinInt64)
			if bits == 32 {
				min = math.MinInt32
			}
			// the operand, looked at through conversions that keep the value (int32 -> int64 widening is
			// safe to negate: then the narrow minimum is no problem)
			x := u.X
			if cv, ok := x.(*ssa.Convert); ok {
				if sb, ok := cv.X.Type().Underlying().(*types.Basic); ok && sb.Info()&types.IsInteger != 0 && sb.Info()&types.IsUnsigned == 0 && int(c.P.sizes().Sizeof(sb))*8 < bits {
					c.ok(key, pos, "the operand was widened from a narrower type: its negation fits")
					return
				}
			}
			dom := newRepDomain(c.P, min, 0)
			dom.addConstsOf(fn)
			dom.reps[min], dom.reps[min+1] = true, true
			dom.valueSetAt(x, u.Block(), map[ssa.Value]bool{}, 0)
			set, _ := dom.valueSetAt(x, u.Block(), map[ssa.Value]bool{}, 0)
			if !set[min] {
				c.ok(key, pos, "the most negative value cannot reach the negation")
				return
			}
			if r, ok := i18Exceptions[key]; ok {
				c.except(key, pos, r)
				return
			}
			if r, ok := w3Exceptions[fnName(outermost(fn))]; ok {
				c.except(key, pos, r)
				return
			}
			c.viol(key, pos, fmt.Sprintf("a %d-bit signed integer is negated where it can still be the most negative value of its type: the negation wraps back to the same negative number", bits))
		})
	}
	c.note("%d negations of 32/64-bit signed integers", n)
}

// ---------- D6: snapshots handed out by a collection are the caller's own ----------

func init() {
	register("D6", "a snapshot of a collection belongs to the caller: every method of the hashtable, Dict and Set that returns a slice (items, keys, values, elems) returns storage allocated by that call; callers sort these slices in place (json.encode sorts Items(), dir() sorts names), so a cached slice shared by all callers of a frozen table changes the order later executions and other threads observe - and two concurrent encodes sort the same memory", 4, ruleD6)
	claim("C03", "D6")
	claim("C04", "D6")
	claim("C05", "D6")
}

func ruleD6(c *Ctx) {
	fc := computeReturnsFresh(c.P)
	n := 0
	for _, fn := range c.P.Funcs {
		if relPkg(fnPkgPath(fn)) != "starlark" || fn.Signature.Recv() == nil || fn.Signature.Results().Len() != 1 {
			continue
		}
		rt := qualType(fn.Signature.Recv().Type())
		if rt != "starlark.hashtable" && rt != "starlark.Dict" && rt != "starlark.Set" {
			continue
		}
		if _, ok := fn.Signature.Results().At(0).Type().Underlying().(*types.Slice); !ok {
			continue
		}
		n++
		key := fnName(fn) + ": returns its own slice"
		bad := ""
		eachInstr(fn, func(in ssa.Instruction) {
			r, ok := in.(*ssa.Return)
			if !ok || len(r.Results) != 1 {
				return
			}
			for _, p := range provenance(fc, r.Results[0]) {
				switch p.kind {
				case "fresh":
				case "field":
					bad = "a slice kept in " + qualType(p.tr.owners[0]) + "." + p.tr.fields[0].Name()
				default:
					// the result of another method of the same family (Dict.Items -> ht.items) is judged there
					if call, ok := p.v.(*ssa.Call); ok {
						if cal := call.Call.StaticCallee(); cal != nil && cal.Signature.Recv() != nil {
							q := qualType(cal.Signature.Recv().Type())
							if q == "starlark.hashtable" || q == "starlark.Dict" || q == "starlark.Set" {
								continue
							}
						}
					}
					bad = "storage whose origin is not an allocation in this call (" + p.kind + ")"
				}
			}
		})
		if bad == "" {
			c.ok(key, c.P.Pos(fn.Pos()), "allocated by the call")
		} else {
			c.viol(key, c.P.Pos(fn.Pos()), "the method returns "+bad+": callers sort the returned slice in place, so every later caller (and every other thread) sees the reordered, shared storage")
		}
	}
	if n == 0 {
		c.anchorFail("no slice-returning methods of hashtable/Dict/Set found")
	}
}

// ---------- X2: a counting method is matched by its inverse on every path ----------

func init() {
	register("X2", "what is counted up is counted down: where a type has a method whose only effect is to add one to an integer field (possibly checking a limit) and another whose only effect is to subtract one from the same field, every call of the first in a function is followed, on every path to the function's return, by a call of the second (directly or deferred) - unless the function is itself one of the pair. A nesting limit whose `enter` is not matched by `leave` on the early returns for `()`, `[]` and `{}` climbs with every empty literal, so a flat file with a thousand of them is rejected as too deeply nested", 0, ruleX2)
	claim("C14", "X2")
	claim("C15", "X2")
}

func ruleX2(c *Ctx) {
	type fld struct {
		t types.Type
		i int
	}
	// methods that only step one field of their receiver by +1 / -1
	delta := map[*ssa.Function]int{}
	which := map[*ssa.Function]fld{}
	for _, fn := range c.P.Funcs {
		if !isProdPkg(fnPkgPath(fn)) || fn.Signature.Recv() == nil || len(fn.Params) == 0 {
			continue
		}
		stores, d := 0, 0
		var f fld
		bad := false
		eachInstr(fn, func(in ssa.Instruction) {
			switch x := in.(type) {
			case *ssa.Store:
				// stores into the function's own temporaries (the argument array of a variadic call)
				if ia, ok := x.Addr.(*ssa.IndexAddr); ok {
					if _, isLocal := ia.X.(*ssa.Alloc); isLocal {
						return
					}
				}
				if _, isLocal := x.Addr.(*ssa.Alloc); isLocal {
					return
				}
				stores++
				fa, ok := x.Addr.(*ssa.FieldAddr)
				if !ok || fa.X != ssa.Value(fn.Params[0]) {
					bad = true
					return
				}
				b, ok := x.Val.(*ssa.BinOp)
				if !ok || (b.Op != token.ADD && b.Op != token.SUB) {
					bad = true
					return
				}
				k, isK := constInt(b.Y)
				ld, isLd := b.X.(*ssa.UnOp)
				if !isK || k != 1 || !isLd {
					bad = true
					return
				}
				if fb, ok := ld.X.(*ssa.FieldAddr); !ok || fb.X != fa.X || fb.Field != fa.Field {
					bad = true
					return
				}
				f = fld{deref(fa.X.Type()), fa.Field}
				if b.Op == token.ADD {
					d = 1
				} else {
					d = -1
				}
			case *ssa.MapUpdate, *ssa.Send, *ssa.Go:
				bad = true
			}
		})
		if !bad && stores == 1 && d != 0 {
			delta[fn] = d
			which[fn] = f
		}
	}
	n := 0
	for inc, d := range delta {
		if d != 1 {
			continue
		}
		var dec *ssa.Function
		for g, d2 := range delta {
			if d2 == -1 && types.Identical(which[g].t, which[inc].t) && which[g].i == which[inc].i {
				dec = g
			}
		}
		if dec == nil {
			continue
		}
		for _, fn := range c.P.Funcs {
			if !isProdPkg(fnPkgPath(fn)) || fn == inc || fn == dec {
				continue
			}
			ord := 0
			deferred := false
			eachInstr(fn, func(in ssa.Instruction) {
				if df, ok := in.(*ssa.Defer); ok && df.Call.StaticCallee() == dec {
					deferred = true
				}
			})
			eachInstr(fn, func(in ssa.Instruction) {
				call, ok := in.(*ssa.Call)
				if !ok || call.Call.StaticCallee() != inc {
					return
				}
				// the obligation concerns functions that mean to balance the count themselves: from this
				// call some call of the inverse is reachable inside the function. Iterate (which returns with
				// the count raised, Done lowers it) and a scanner counting brackets across calls are not.
				balances := deferred
				eachInstr(fn, func(in2 ssa.Instruction) {
					if ci, ok := in2.(ssa.CallInstruction); ok && ci.Common().StaticCallee() == dec {
						if in2.Block() == call.Block() || reachable(call.Block(), in2.Block()) {
							balances = true
						}
					}
				})
				if !balances {
					return
				}
				n++
				ord++
				key := fmt.Sprintf("%s: %s #%d is matched by %s", fnName(fn), inc.Name(), ord, dec.Name())
				if deferred {
					c.ok(key, c.P.Pos(call.Pos()), "the inverse is deferred")
					return
				}
				leak := pathAvoiding(call,
					func(x ssa.Instruction) bool {
						ci, ok := x.(ssa.CallInstruction)
						return ok && ci.Common().StaticCallee() == dec
					},
					func(x ssa.Instruction) bool {
						_, isRet := x.(*ssa.Return)
						return isRet
					})
				if leak == nil {
					c.ok(key, c.P.Pos(call.Pos()), "every path to a return passes the inverse call")
				} else {
					c.viol(key, c.P.Pos(leak.Pos()), fmt.Sprintf("a return is reachable after %s without %s: the counter keeps the increment, so it grows with every such path taken and the limit it guards is eventually hit by input that is not nested at all", inc.Name(), dec.Name()))
				}
			})
		}
	}
	c.note("%d calls of counting methods that have an inverse", n)
}

// ---------- L9: decoded positions keep their full width ----------

func init() {
	register("L9", "a decoded line-table row keeps line and column at full width: the element type of the table that (*Funcode).decodeLNT fills is a struct with separate 32-bit (or wider) integer fields for the line and the column besides the pc; packing both into one word ('20 bits of line, 12 of column, as cmd/compile does') clamps every position beyond column 4095, although a generated one-line program easily has columns above that", 1, ruleL9)
	claim("C16", "L9")
}

func ruleL9(c *Ctx) {
	fn := c.P.Func(compilePkg, "Funcode.decodeLNT")
	if fn == nil {
		c.anchorFail("(*compile.Funcode).decodeLNT not found")
		return
	}
	// the slice field of Funcode that decodeLNT stores into
	var elem types.Type
	var at token.Pos
	eachInstr(fn, func(in ssa.Instruction) {
		st, ok := in.(*ssa.Store)
		if !ok {
			return
		}
		fa, ok := st.Addr.(*ssa.FieldAddr)
		if !ok {
			return
		}
		if _, tn := namedOf(fa.X.Type()); tn != "Funcode" {
			return
		}
		if sl, ok := deref(fa.Type()).Underlying().(*types.Slice); ok {
			elem = sl.Elem()
			at = st.Pos()
		}
	})
	key := "(*compile.Funcode).decodeLNT: row type"
	if elem == nil {
		c.anchorFail("decodeLNT stores no slice into the Funcode")
		return
	}
	st, ok := elem.Underlying().(*types.Struct)
	if !ok {
		c.viol(key, c.P.Pos(at), fmt.Sprintf("the decoded line table holds %s values, not rows with separate line and column fields: positions are packed and therefore clamped", elem))
		return
	}
	wide := 0
	for i := 0; i < st.NumFields(); i++ {
		if bt, ok := st.Field(i).Type().Underlying().(*types.Basic); ok && bt.Info()&types.IsInteger != 0 && c.P.sizes().Sizeof(bt) >= 4 {
			wide++
		}
	}
	if wide >= 3 {
		c.ok(key, c.P.Pos(at), fmt.Sprintf("%d integer fields of 32 bits or more (pc, line, column)", wide))
	} else {
		c.viol(key, c.P.Pos(at), fmt.Sprintf("a decoded row has only %d integer field(s) of 32 bits or more: line and column share a word or are narrowed, so large columns (or line numbers) are clamped when an error position is computed", wide))
	}
}

// ---------- A13: after the star every parameter has a slot in the defaults tuple ----------

func init() {
	register("A13", "after `*` every parameter has a slot in the defaults tuple: in the compiler's function(), the emission of the MANDATORY placeholder for a parameter without default depends on one flag only, and that flag is false initially and set to the constant true in the arm that sees a `*`/`*args`/`**kwargs` parameter - never to a computed value. The interpreter indexes the tuple by parameter position from the first optional parameter on, so a placeholder omitted 'because no positional default precedes the star' shifts every later default by one: def f(a, *, c=\"dc\", e) binds e to c's default", 1, ruleA13)
	claim("C08", "A13")
}

func ruleA13(c *Ctx) {
	oi := opcodes(c)
	fn := c.P.Func(compilePkg, "fcomp.function")
	if oi == nil || fn == nil {
		c.anchorFail("compile.(*fcomp).function or the opcode table not found")
		return
	}
	mand, ok := oi.byName["MANDATORY"]
	if !ok {
		c.anchorFail("opcode MANDATORY not found")
		return
	}
	n := 0
	// the loop over the parameters may have been moved into a helper (paramDefaults): every emission of
	// MANDATORY in the package is judged in the function it stands in
	var hosts []*ssa.Function
	for _, g := range c.P.Funcs {
		if fnPkgPath(g) == modPath+"/"+compilePkg {
			hosts = append(hosts, g)
		}
	}
	sortFuncs(hosts)
	for _, host := range hosts {
		eachInstr(host, func(in ssa.Instruction) {
			call, ok := in.(*ssa.Call)
			if !ok || call.Call.StaticCallee() == nil || len(call.Call.Args) < 2 {
				return
			}
			k, isK := constInt(call.Call.Args[1])
			if !isK || k != mand || !strings.HasSuffix(call.Call.Args[1].Type().String(), "compile.Opcode") {
				return
			}
			n++
			key := fmt.Sprintf("%s: MANDATORY placeholder #%d", fnName(host), n)
			pos := c.P.Pos(call.Pos())
			// the boolean flags this emission depends on (conditions that are not type tests of the parameter)
			var flags []ssa.Value
			for _, f := range pathFacts(call.Block()) {
				if !f.Truth {
					continue
				}
				switch x := f.Cond.(type) {
				case *ssa.Phi:
					flags = append(flags, x)
				case *ssa.UnOp:
					if x.Op == token.MUL {
						flags = append(flags, x)
					}
				}
			}
			if len(flags) == 0 {
				c.viol(key, pos, "the placeholder is not guarded by a 'star seen' flag: it is emitted for parameters before the star as well (or the guard is not a plain flag)")
				return
			}
			bad := ""
			for _, fl := range flags {
				seen := map[ssa.Value]bool{}
				var walk func(v ssa.Value)
				walk = func(v ssa.Value) {
					if seen[v] {
						return
					}
					seen[v] = true
					switch x := v.(type) {
					case *ssa.Phi:
						for _, e := range x.Edges {
							walk(e)
						}
					case *ssa.Const:
					case *ssa.UnOp:
						// a flag kept in a variable cell: every value stored into it
						if al, ok := x.X.(*ssa.Alloc); ok && x.Op == token.MUL {
							if refs := al.Referrers(); refs != nil {
								for _, r := range *refs {
									if st, ok := r.(*ssa.Store); ok && st.Addr == ssa.Value(al) {
										walk(st.Val)
									}
								}
							}
							return
						}
						bad = "a value loaded from elsewhere"
					default:
						bad = fmt.Sprintf("a computed value (%s)", strings.TrimPrefix(fmt.Sprintf("%T", v), "*ssa."))
					}
				}
				walk(fl)
			}
			if bad == "" {
				c.ok(key, pos, "guarded by a flag that only ever holds the constants false and true")
			} else {
				c.viol(key, pos, "the flag deciding whether a parameter after the star gets its MANDATORY slot is "+bad+", not a constant set when the star is seen: for some signatures a slot is omitted and every later default is bound to the wrong parameter")
			}
		})
	}
	if n == 0 {
		c.anchorFail("no emission of MANDATORY found in package compile")
	}
}
