// verifsa: repository-specific static analyser deciding structural clauses of
// the properties in /verif/properties.jsonl on /repo's current source.
package main

import (
	"encoding/json"
	"flag"
	"fmt"
	"os"
	"path/filepath"
	"sort"
	"strconv"
	"strings"
	"time"
)

var allRules = map[string]*ruleInfo{}

func register(name, doc string, floor int, run func(c *Ctx)) {
	if _, dup := allRules[name]; dup {
		panic("duplicate rule " + name)
	}
	allRules[name] = &ruleInfo{name: name, doc: doc, floor: floor, run: run}
}

// propRules lists, per property, the rules that decide its structural clauses.
var propRules = map[string][]string{}

func claim(prop string, rules ...string) { propRules[prop] = append(propRules[prop], rules...) }

func rulesFor(prop string) ([]*ruleInfo, error) {
	if prop == "ALL" {
		// every rule once (used by the seed tools, not by the manifest)
		var ns []string
		for n := range allRules {
			ns = append(ns, n)
		}
		sort.Strings(ns)
		var rs []*ruleInfo
		for _, n := range ns {
			rs = append(rs, allRules[n])
		}
		return rs, nil
	}
	names, ok := propRules[prop]
	if !ok {
		return nil, fmt.Errorf("no rules registered for property %s", prop)
	}
	var rs []*ruleInfo
	for _, n := range names {
		r := allRules[n]
		if r == nil {
			return nil, fmt.Errorf("property %s names unknown rule %s", prop, n)
		}
		rs = append(rs, r)
	}
	return rs, nil
}

func main() {
	repo := flag.String("repo", envOr("VERIF_REPO", "/repo"), "repository to analyse")
	verif := flag.String("verif", envOr("VERIF_DIR", "/verif"), "verif directory (evidence, known findings)")
	arch := flag.String("arch", "amd64", "GOARCH configuration")
	tier := flag.String("tier", envOr("VERIF_TIER", "quick"), "quick|thorough")
	overlayFlag := flag.String("overlay", "", "comma-separated list of repoRelativeFile=replacementPath (in-memory overlays for the mutant self-test)")
	onlyRules := flag.String("rules", "", "comma-separated rule names (debugging)")
	flag.Parse()
	args := flag.Args()
	if len(args) < 1 {
		fmt.Fprintln(os.Stderr, "usage: verifsa [flags] check <Cxx> | list | selftest <Cxx>")
		os.Exit(2)
	}
	seed, _ := strconv.ParseInt(os.Getenv("VERIF_SEED"), 10, 64)
	switch args[0] {
	case "rules":
		var ns []string
		for n := range allRules {
			ns = append(ns, n)
		}
		sort.Strings(ns)
		for _, n := range ns {
			var ps []string
			for p, rs := range propRules {
				for _, r := range rs {
					if r == n {
						ps = append(ps, p)
					}
				}
			}
			sort.Strings(ps)
			fmt.Printf("%s\t%s\t%s\n", n, strings.Join(ps, " "), allRules[n].doc)
		}
		return
	case "list":
		var ps []string
		for p := range propRules {
			ps = append(ps, p)
		}
		sort.Strings(ps)
		for _, p := range ps {
			fmt.Printf("%s: %s\n", p, strings.Join(propRules[p], " "))
		}
		return
	case "check":
		if len(args) < 2 {
			fmt.Fprintln(os.Stderr, "check needs a property id")
			os.Exit(2)
		}
		prop := args[1]
		start := time.Now()
		rs, err := rulesFor(prop)
		if err != nil {
			fmt.Printf("CHECKER-FAILURE property=%s %v\n", prop, err)
			os.Exit(2)
		}
		if *onlyRules != "" {
			rs = nil
			for _, n := range strings.Split(*onlyRules, ",") {
				if r := allRules[n]; r != nil {
					rs = append(rs, r)
				} else {
					fmt.Fprintf(os.Stderr, "unknown rule %s\n", n)
					os.Exit(2)
				}
			}
		}
		overlay := map[string][]byte{}
		if *overlayFlag != "" {
			for _, kv := range strings.Split(*overlayFlag, ",") {
				i := strings.Index(kv, "=")
				if i < 0 {
					fmt.Fprintln(os.Stderr, "bad -overlay")
					os.Exit(2)
				}
				b, err := os.ReadFile(kv[i+1:])
				if err != nil {
					fmt.Fprintln(os.Stderr, err)
					os.Exit(2)
				}
				overlay[filepath.Join(*repo, kv[:i])] = b
			}
		}
		absRepo, _ := filepath.Abs(*repo)
		p, err := Load(absRepo, *arch, overlay)
		if err != nil {
			fmt.Printf("CHECKER-FAILURE property=%s %v\n", prop, err)
			writeFailEvidence(*verif, prop, *tier, seed, start, err.Error())
			os.Exit(2)
		}
		if len(p.Pkgs) < 14 {
			fmt.Printf("CHECKER-FAILURE property=%s only %d module packages loaded (expected >= 14)\n", prop, len(p.Pkgs))
			os.Exit(2)
		}
		curProg = p
		c := &Ctx{P: p, Prop: prop, Tier: *tier}
		c.runRules(rs)
		extra := map[string]any{}
		if *tier == "thorough" && os.Getenv("VERIF_SELFTEST") == "" {
			// second configuration: GOARCH=386 selects int_generic.go and a 32-bit int
			p2, err := Load(absRepo, "386", overlay)
			if err != nil {
				c.failures = append(c.failures, "GOARCH=386 configuration: "+err.Error())
			} else {
				curProg = p2
				c2 := &Ctx{P: p2, Prop: prop, Tier: *tier}
				c2.runRules(rs)
				curProg = p
				for _, o := range c2.obs {
					o.Key = "[GOARCH=386] " + o.Key
					c.obs = append(c.obs, o)
				}
				for _, f := range c2.failures {
					c.failures = append(c.failures, "[GOARCH=386] "+f)
				}
				extra["second_configuration"] = map[string]any{"goarch": "386", "packages": len(p2.Pkgs), "functions": len(p2.Funcs), "obligations": len(c2.obs)}
			}
			// seeded-mutant self-test (in-memory overlays, subprocesses)
			mres, mfail := runMutants(prop, absRepo, *verif)
			c.failures = append(c.failures, mfail...)
			extra["mutant_selftest"] = mres
			sres, sfail := runSeeds(prop, absRepo, *verif)
			c.failures = append(c.failures, sfail...)
			extra["seeded_breakages_selftest"] = sres
			sd, ss := 0, 0
			for _, r := range sres {
				if r.Outcome == "detected" {
					sd++
				}
				if r.Outcome == "skipped" {
					ss++
				}
			}
			fmt.Printf("  selftest: %d independently seeded breakages of this property re-applied in memory, %d refused, %d skipped (patch no longer applies)\n", len(sres), sd, ss)
			det, sil := 0, 0
			for _, r := range mres {
				if r.Outcome == "detected" {
					det++
				}
				if r.Outcome == "silent" {
					sil++
				}
			}
			fmt.Printf("  selftest: %d mutants run, %d seeded breakages detected, %d behaviour-preserving variants silent\n", len(mres), det, sil)
		}
		code := c.finish(*verif, rs, start, seed, extra)
		os.Exit(code)
	default:
		fmt.Fprintf(os.Stderr, "unknown command %s\n", args[0])
		os.Exit(2)
	}
}

func envOr(k, d string) string {
	if v := os.Getenv(k); v != "" {
		return v
	}
	return d
}

func writeFailEvidence(verif, prop, tier string, seed int64, start time.Time, msg string) {
	ev := map[string]any{
		"property_id": prop, "tier": tier, "seed": seed, "level": "other",
		"coverage": map[string]any{"explanation": "checker failure, nothing analysed: " + msg, "evaluations": 0, "distinct_nontrivial": 0, "checker_failures": []string{msg}},
		"wall_s":   time.Since(start).Seconds(), "violations": 0,
	}
	b, _ := json.MarshalIndent(ev, "", " ")
	os.MkdirAll(filepath.Join(verif, "evidence"), 0o755)
	os.WriteFile(filepath.Join(verif, "evidence", prop+".json"), b, 0o644)
}

func init() {
	claim("C04", "W1", "M1", "F1", "F2", "F3", "W2", "W4", "W5", "W6")
}

func init() {
	claim("C06", "P1", "P2", "V7", "M2", "M1", "W1")
}

func init() {
	claim("C07", "S1", "S2", "S3", "S4", "S5")
}

func init() {
	claim("C05", "W1", "M1", "M2", "F1", "F2", "W5", "W6", "ZONCE", "W3", "TC", "S3")
}

func init() {
	claim("C17", "Z1", "Z2", "Z3", "Z4", "Z5")
}

func init() {
	claim("C16", "L1", "L2", "L3", "L5", "L6", "Z1", "Z2", "Z4", "ZONCE")
}

func init() {
	claim("C01", "V1", "V2", "V3", "V4", "V5", "V6", "V7", "V8", "V9", "P2")
}

func init() {
	claim("C09", "O1", "O2", "O3", "O4", "O5", "O7", "O8", "S4")
	claim("C01", "O1")
}

func init() {
	claim("C02", "N1", "N2", "N4", "N5", "N6", "N7", "F1")
}

func init() {
	claim("C19", "B1", "B5", "B2", "B3", "B4", "I6T")
}

func init() {
	claim("C11", "E1", "E2", "E3", "E4", "E5", "E6", "E7", "N4", "N6", "B3")
}

func init() {
	claim("C12", "H1", "H2", "H3", "H4", "H5", "H6", "D2")
}

func init() {
	claim("C03", "D1", "D2", "D3", "D4", "D5", "H5", "W3")
}

func init() {
	claim("C20", "R1", "R2", "R3", "W1", "M1", "M2", "P1")
}

func init() {
	claim("C15", "Q1", "Q2", "Q3", "Q4", "N5")
}

func init() {
	claim("C14", "T1", "T2", "T3", "T5", "V4", "O1", "N7", "Q1", "Q2")
}

func init() {
	claim("C18", "J2", "J3", "J4", "N7", "P1")
}

func init() {
	claim("C10", "I1", "I7", "I4", "I5", "I6", "I8", "I3", "B3", "B4")
}

func init() {
	claim("C08", "A1", "A2", "A3", "A5", "Z1", "N1")
}
