package main

import (
	"fmt"
	"go/constant"
	"go/token"
	"go/types"
	"sort"
	"strings"

	"golang.org/x/tools/go/ssa"
)

func init() {
	register("B1", "operand-side handling: every arm of a HasBinary implementation that returns a value for a non-commutative operator with an operand of a different type tests `side` on the way to that return (same-type arms are exempt: Binary dispatches the left operand first), so the reversed operation is never computed", 8, ruleB1)
	register("B2", "instant-based comparison: Time/Duration Cmp and Hash use only zone-independent accessors (no Format, Zone, Location, calendar fields, struct ==)", 3, ruleB2)
	register("B3", "no compare-by-subtraction: Cmp/CompareSameType implementations do not derive their result from the sign of a 64-bit difference (which wraps for operands far apart)", 3, ruleB3)
	register("B4", "integer operands use integer arithmetic: in the arms of lib/time's Binary methods where the other operand is a starlark.Int, the result is not computed through a float64 conversion", 2, ruleB4)
}

var nonCommutative = map[string]bool{"MINUS": true, "SLASH": true, "SLASHSLASH": true, "PERCENT": true, "LTLT": true, "GTGT": true, "IN": true, "NOT_IN": true}

func tokenNames(p *Prog) map[int64]string {
	out := map[int64]string{}
	pk := p.Pkg("syntax")
	if pk == nil {
		return out
	}
	_, byVal := enumConsts(pk, "Token")
	for v, ns := range byVal {
		sort.Strings(ns)
		out[v] = ns[0]
	}
	return out
}

func binaryMethods(p *Prog) []*ssa.Function {
	var out []*ssa.Function
	for _, fn := range p.Funcs {
		if fn.Name() != "Binary" || fn.Signature.Recv() == nil || fn.Signature.Params().Len() != 3 || !isProdPkg(fnPkgPath(fn)) {
			continue
		}
		if _, n := namedOf(fn.Signature.Params().At(0).Type()); n != "Token" {
			continue
		}
		out = append(out, fn)
	}
	return out
}

type binArm struct {
	ret      *ssa.Return
	ops      []string
	ytype    string
	sideTest bool
}

func binaryArms(p *Prog, fn *ssa.Function) []binArm {
	toks := tokenNames(p)
	opP, yP, sideP := fn.Params[1], fn.Params[2], fn.Params[3]
	var arms []binArm
	eachInstr(fn, func(in ssa.Instruction) {
		r, ok := in.(*ssa.Return)
		if !ok || len(r.Results) != 2 || isNilConst(r.Results[0]) {
			return
		}
		// value-returning return (possibly a phi including nil: treat as value)
		arm := binArm{ret: r}
		for _, pc := range pathConds(r.Block()) {
			cond, neg := stripNot(pc.If.Cond)
			taken := pc.Branch != neg
			switch x := cond.(type) {
			case *ssa.BinOp:
				if (x.X == opP || x.Y == opP) && x.Op == token.EQL && taken {
					kv := x.Y
					if x.Y == opP {
						kv = x.X
					}
					if k, isK := constInt(kv); isK {
						arm.ops = append(arm.ops, toks[k])
					}
				}
				if usesValue(x, sideP) {
					arm.sideTest = true
				}
			case *ssa.Extract:
				if ta, ok := x.Tuple.(*ssa.TypeAssert); ok && x.Index == 1 && taken && ta.X == yP {
					arm.ytype = qualType(ta.AssertedType)
					if arm.ytype == "" {
						arm.ytype = ta.AssertedType.String()
					}
				}
			}
		}
		// && chains lower to nested ifs; `side` may also be used to swap operands via phi: count any If on side dominating
		arms = append(arms, arm)
	})
	return arms
}

func usesValue(v ssa.Value, target ssa.Value) bool {
	if v == target {
		return true
	}
	switch x := v.(type) {
	case *ssa.BinOp:
		return usesValue(x.X, target) || usesValue(x.Y, target)
	case *ssa.UnOp:
		return usesValue(x.X, target)
	}
	return false
}

func ruleB1(c *Ctx) {
	fns := binaryMethods(c.P)
	if len(fns) < 3 {
		c.anchorFail("only %d Binary implementations found", len(fns))
	}
	for _, fn := range fns {
		recv := qualType(fn.Signature.Recv().Type())
		for _, a := range binaryArms(c.P, fn) {
			ops := strings.Join(a.ops, "|")
			if ops == "" {
				ops = "<any>"
			}
			yt := a.ytype
			if yt == "" {
				yt = "<any>"
			}
			key := fmt.Sprintf("%s: arm %s with %s", fnName(fn), ops, yt)
			pos := c.P.Pos(leakPos(a.ret))
			nonComm := false
			for _, o := range a.ops {
				if nonCommutative[o] {
					nonComm = true
				}
			}
			switch {
			case a.ytype == recv:
				c.trivial(key, pos, "same-type operands: Binary is asked of the left operand first, so side is always Left")
			case !nonComm && len(a.ops) > 0:
				c.trivial(key, pos, "commutative operator")
			case a.sideTest:
				c.ok(key, pos, "tests side before returning a value")
			default:
				c.viol(key, pos, fmt.Sprintf("returns a value for non-commutative operator %s with a %s operand without testing side: when the %s is the RIGHT operand (y %s x) the reversed operation x %s y is computed instead of being rejected", ops, yt, recv, ops, ops))
			}
		}
	}
}

// ---------- B2 ----------

var zoneDependent = map[string]bool{"Format": true, "AppendFormat": true, "Zone": true, "ZoneBounds": true, "Location": true, "Date": true, "Clock": true, "Year": true, "Month": true, "Day": true, "Hour": true, "Minute": true, "Second": true, "Nanosecond": true, "Weekday": true, "YearDay": true, "ISOWeek": true, "String": true, "GoString": true, "MarshalText": true, "MarshalJSON": true, "MarshalBinary": true, "Local": true, "In": true}

func ruleB2(c *Ctx) {
	for _, tn := range []string{"Time", "Duration"} {
		for _, mn := range []string{"Cmp", "Hash"} {
			fn := c.P.Func("lib/time", tn+"."+mn)
			key := fmt.Sprintf("lib/time.%s.%s", tn, mn)
			if fn == nil {
				c.anchorFail("%s not found", key)
				continue
			}
			bad := ""
			eachInstr(fn, func(in ssa.Instruction) {
				switch x := in.(type) {
				case ssa.CallInstruction:
					if cal := x.Common().StaticCallee(); cal != nil && cal.Signature.Recv() != nil {
						if pp, n := namedOf(cal.Signature.Recv().Type()); pp == "time" && n == "Time" && zoneDependent[cal.Name()] {
							bad = "calls time.Time." + cal.Name()
						}
					}
				case *ssa.BinOp:
					if (x.Op == token.EQL || x.Op == token.NEQ) && isStructTime(x.X.Type()) {
						bad = "compares time.Time structs with == (wall clock and location included)"
					}
				}
			})
			if bad == "" {
				c.ok(key, c.P.Pos(fn.Pos()), "uses instant-based accessors only")
			} else {
				c.viol(key, c.P.Pos(fn.Pos()), key+" "+bad+": the same instant in two time zones would compare or hash differently")
			}
		}
	}
}

func isStructTime(t types.Type) bool {
	pp, n := namedOf(t)
	if _, isPtr := t.(*types.Pointer); isPtr {
		return false
	}
	if pp == "time" && n == "Time" {
		return true
	}
	if n == "Time" && strings.HasSuffix(pp, "lib/time") {
		return true
	}
	return false
}

// ---------- B3 ----------

func ruleB3(c *Ctx) {
	n := 0
	for _, fn := range c.P.Funcs {
		if (fn.Name() != "Cmp" && fn.Name() != "CompareSameType") || fn.Signature.Recv() == nil || !isProdPkg(fnPkgPath(fn)) {
			continue
		}
		n++
		key := fnName(fn)
		bad := ""
		eachInstr(fn, func(in ssa.Instruction) {
			b, ok := in.(*ssa.BinOp)
			if !ok || b.Op != token.SUB {
				return
			}
			bt, ok := b.Type().Underlying().(*types.Basic)
			if !ok || bt.Info()&types.IsInteger == 0 {
				return
			}
			if _, isK := b.X.(*ssa.Const); isK {
				return
			}
			if _, isK := b.Y.(*ssa.Const); isK {
				return
			}
			// does the difference decide the result? (compared with 0, or returned)
			for _, r := range *b.Referrers() {
				switch x := r.(type) {
				case *ssa.BinOp:
					if k, isK := constInt(x.Y); isK && k == 0 {
						bad = "sign test of a difference at " + c.P.Pos(b.Pos())
					}
				case *ssa.Return, *ssa.Convert:
					bad = "difference returned as the comparison result at " + c.P.Pos(b.Pos())
				}
			}
		})
		if bad == "" {
			c.ok(key, c.P.Pos(fn.Pos()), "no comparison by subtraction")
		} else {
			c.viol(key, c.P.Pos(fn.Pos()), "comparison derived from "+bad+": the subtraction wraps when the operands are more than 2^63 apart, so the order is not total")
		}
	}
	if n < 5 {
		c.anchorFail("only %d Cmp/CompareSameType implementations", n)
	}
}

// ---------- B4 ----------

func ruleB4(c *Ctx) {
	for _, fn := range binaryMethods(c.P) {
		if fnPkgPath(fn) != modPath+"/lib/time" {
			continue
		}
		yP := fn.Params[2]
		// blocks dominated by the ok-edge of y.(starlark.Int)
		eachInstr(fn, func(in ssa.Instruction) {
			ifi, ok := in.(*ssa.If)
			if !ok {
				return
			}
			ex, ok := ifi.Cond.(*ssa.Extract)
			if !ok || ex.Index != 1 {
				return
			}
			ta, ok := ex.Tuple.(*ssa.TypeAssert)
			if !ok || ta.X != yP || qualType(ta.AssertedType) != "starlark.Int" {
				return
			}
			arm := ifi.Block().Succs[0]
			toks := tokenNames(c.P)
			opName := "?"
			for _, pc := range pathConds(ifi.Block()) {
				if bo, ok := pc.If.Cond.(*ssa.BinOp); ok && bo.Op == token.EQL && pc.Branch && bo.X == fn.Params[1] {
					if k, isK := constInt(bo.Y); isK {
						opName = toks[k]
					}
				}
			}
			key := fmt.Sprintf("%s: arm %s with starlark.Int uses integer arithmetic", fnName(fn), opName)
			bad := ""
			for _, b := range fn.Blocks {
				if b != arm && !arm.Dominates(b) {
					continue
				}
				for _, in2 := range b.Instrs {
					switch x := in2.(type) {
					case *ssa.Convert:
						if bt, ok := x.Type().Underlying().(*types.Basic); ok && bt.Info()&types.IsFloat != 0 {
							bad = "converts to " + x.Type().String() + " at " + c.P.Pos(x.Pos())
						}
					case *ssa.Call:
						if cal := x.Call.StaticCallee(); cal != nil && cal.Name() == "Float" && strings.HasSuffix(fnPkgPath(cal), "/starlark") {
							bad = "calls Int.Float at " + c.P.Pos(x.Pos())
						}
					}
				}
			}
			if bad == "" {
				c.ok(key, c.P.Pos(ta.Pos()), "integer arithmetic only")
			} else {
				c.viol(key, c.P.Pos(ta.Pos()), "the arm for an integer operand "+bad+": results lose precision above 2^53 nanoseconds instead of being exact")
			}
		})
	}
}

var _ = constant.Int
