package main

import (
	"fmt"
	"go/constant"
	"go/token"
	"go/types"
	"sort"
	"strings"

	"golang.org/x/tools/go/ssa"
)

func init() {
	register("B1", "operand-side handling: every arm of a HasBinary implementation that returns a value for a non-commutative operator with an operand of a different type tests `side` on the way to that return (same-type arms are exempt: Binary dispatches the left operand first), so the reversed operation is never computed", 8, ruleB1)
	register("B2", "instant-based comparison: Time/Duration Cmp and Hash use only zone-independent accessors (no Format, Zone, Location, calendar fields, struct ==)", 3, ruleB2)
	register("B3", "no compare-by-subtraction: Cmp/CompareSameType implementations do not derive their result from the sign of a 64-bit difference (which wraps for operands far apart)", 3, ruleB3)
	register("B5", "one operator per arm: every value-returning arm of a Binary method is reachable under exactly one operator token (a merged `case PLUS, MINUS:` must discriminate the operator again before returning), so x + y never silently computes x - y", 5, ruleB5)
	register("B4", "integer operands use integer arithmetic: in the arms of lib/time's Binary methods where the other operand is a starlark.Int, the result is not computed through a float64 conversion", 2, ruleB4)
}

var nonCommutative = map[string]bool{"MINUS": true, "SLASH": true, "SLASHSLASH": true, "PERCENT": true, "LTLT": true, "GTGT": true, "IN": true, "NOT_IN": true}

func tokenNames(p *Prog) map[int64]string {
	out := map[int64]string{}
	pk := p.Pkg("syntax")
	if pk == nil {
		return out
	}
	_, byVal := enumConsts(pk, "Token")
	for v, ns := range byVal {
		sort.Strings(ns)
		out[v] = ns[0]
	}
	return out
}

func binaryMethods(p *Prog) []*ssa.Function {
	var out []*ssa.Function
	for _, fn := range p.Funcs {
		if fn.Name() != "Binary" || fn.Signature.Recv() == nil || fn.Signature.Params().Len() != 3 || !isProdPkg(fnPkgPath(fn)) {
			continue
		}
		if _, n := namedOf(fn.Signature.Params().At(0).Type()); n != "Token" {
			continue
		}
		out = append(out, fn)
	}
	return out
}

type binArm struct {
	ret      *ssa.Return
	ops      []string
	ytype    string
	sideTest bool
}

func binaryArms(p *Prog, fn *ssa.Function) []binArm {
	return binaryArms1(p, fn, fn.Params[1], fn.Params[2], fn.Params[3], nil, false, 0)
}

// binaryArms1 collects the value-returning arms of fn. When an arm merely
// returns the results of a package-local helper (`return d.sub(y, side)`),
// the helper's arms are collected instead, inheriting the operator facts.
func binaryArms1(p *Prog, fn *ssa.Function, opP, yP, sideP ssa.Value, inheritedOps []string, inheritedSide bool, depth int) []binArm {
	toks := tokenNames(p)
	var arms []binArm
	eachInstr(fn, func(in ssa.Instruction) {
		r, ok := in.(*ssa.Return)
		if !ok || len(r.Results) != 2 || isNilConst(r.Results[0]) {
			return
		}
		arm := binArm{ret: r, ops: append([]string{}, inheritedOps...), sideTest: inheritedSide}
		// conditions taken apart: `isSum := ok && op == PLUS; if !isSum { return }` yields both conjuncts
		for _, pf := range pathFacts(r.Block()) {
			cond, taken := pf.Cond, pf.Truth
			switch x := cond.(type) {
			case *ssa.BinOp:
				if opP != nil && (x.X == opP || x.Y == opP) && ((x.Op == token.EQL && taken) || (x.Op == token.NEQ && !taken)) {
					kv := x.Y
					if x.Y == opP {
						kv = x.X
					}
					if k, isK := constInt(kv); isK {
						arm.ops = append(arm.ops, toks[k])
					}
				}
				if sideP != nil && usesValue(x, sideP) {
					arm.sideTest = true
				}
			case *ssa.Extract:
				if ta, ok := x.Tuple.(*ssa.TypeAssert); ok && x.Index == 1 && taken && ta.X == yP {
					arm.ytype = qualType(ta.AssertedType)
					if arm.ytype == "" {
						arm.ytype = ta.AssertedType.String()
					}
				}
			}
		}
		// delegation to a helper?
		if ex, ok := r.Results[0].(*ssa.Extract); ok && depth < 3 {
			if call, ok := ex.Tuple.(*ssa.Call); ok {
				if cal := call.Call.StaticCallee(); cal != nil && cal.Blocks != nil && fnPkgPath(cal) == fnPkgPath(fn) {
					var hy, hside, hop ssa.Value
					for i, a := range call.Call.Args {
						if i >= len(cal.Params) {
							break
						}
						switch a {
						case yP:
							hy = cal.Params[i]
						case sideP:
							hside = cal.Params[i]
						case opP:
							hop = cal.Params[i]
						}
					}
					if hy != nil {
						sub := binaryArms1(p, cal, hop, hy, hside, arm.ops, arm.sideTest, depth+1)
						if arm.ytype != "" {
							for i := range sub {
								if sub[i].ytype == "" {
									sub[i].ytype = arm.ytype
								}
							}
						}
						arms = append(arms, sub...)
						return
					}
				}
			}
		}
		arms = append(arms, arm)
	})
	return arms
}

func usesValue(v ssa.Value, target ssa.Value) bool {
	if v == target {
		return true
	}
	switch x := v.(type) {
	case *ssa.BinOp:
		return usesValue(x.X, target) || usesValue(x.Y, target)
	case *ssa.UnOp:
		return usesValue(x.X, target)
	}
	return false
}

func ruleB1(c *Ctx) {
	fns := binaryMethods(c.P)
	if len(fns) < 3 {
		c.anchorFail("only %d Binary implementations found", len(fns))
	}
	for _, fn := range fns {
		recv := qualType(fn.Signature.Recv().Type())
		for _, a := range binaryArms(c.P, fn) {
			ops := strings.Join(a.ops, "|")
			if ops == "" {
				ops = "<any>"
			}
			yt := a.ytype
			if yt == "" {
				yt = "<any>"
			}
			key := fmt.Sprintf("%s: arm %s with %s", fnName(fn), ops, yt)
			pos := c.P.Pos(leakPos(a.ret))
			nonComm := false
			for _, o := range a.ops {
				if nonCommutative[o] {
					nonComm = true
				}
			}
			switch {
			case a.ytype == recv:
				c.trivial(key, pos, "same-type operands: Binary is asked of the left operand first, so side is always Left")
			case !nonComm && len(a.ops) > 0:
				c.trivial(key, pos, "commutative operator")
			case a.sideTest:
				c.ok(key, pos, "tests side before returning a value")
			default:
				c.viol(key, pos, fmt.Sprintf("returns a value for non-commutative operator %s with a %s operand without testing side: when the %s is the RIGHT operand (y %s x) the reversed operation x %s y is computed instead of being rejected", ops, yt, recv, ops, ops))
			}
		}
	}
}

// ---------- B2 ----------

var zoneDependent = map[string]bool{"Format": true, "AppendFormat": true, "Zone": true, "ZoneBounds": true, "Location": true, "Date": true, "Clock": true, "Year": true, "Month": true, "Day": true, "Hour": true, "Minute": true, "Second": true, "Nanosecond": true, "Weekday": true, "YearDay": true, "ISOWeek": true, "String": true, "GoString": true, "MarshalText": true, "MarshalJSON": true, "MarshalBinary": true, "Local": true, "In": true}

func ruleB2(c *Ctx) {
	for _, tn := range []string{"Time", "Duration"} {
		for _, mn := range []string{"Cmp", "Hash"} {
			fn := c.P.Func("lib/time", tn+"."+mn)
			key := fmt.Sprintf("lib/time.%s.%s", tn, mn)
			if fn == nil {
				c.anchorFail("%s not found", key)
				continue
			}
			bad := ""
			// the method and the lib/time functions it reaches by static calls (Hash via String ...)
			reach := []*ssa.Function{fn}
			seenFn := map[*ssa.Function]bool{fn: true}
			for i := 0; i < len(reach); i++ {
				g := reach[i]
				via := ""
				if g != fn {
					via = " (through " + fnName(g) + ")"
				}
				eachInstr(g, func(in ssa.Instruction) {
					switch x := in.(type) {
					case ssa.CallInstruction:
						cal := x.Common().StaticCallee()
						if cal == nil {
							return
						}
						if cal.Signature.Recv() != nil {
							if pp, n := namedOf(cal.Signature.Recv().Type()); pp == "time" && n == "Time" && zoneDependent[cal.Name()] {
								bad = "calls time.Time." + cal.Name() + via
							}
						}
						// the whole struct handed to code that is not one of time.Time's own methods
						// (a generic hasher, reflection, fmt): wall clock, monotonic reading and
						// location pointer become part of the result
						isTimeMethod := false
						if cal.Signature.Recv() != nil {
							if pp, n := namedOf(cal.Signature.Recv().Type()); pp == "time" && n == "Time" {
								isTimeMethod = true
							}
						}
						if !isTimeMethod && fnPkgPath(cal) != modPath+"/lib/time" {
							for _, a := range x.Common().Args {
								if isStructTime(a.Type()) {
									bad = "passes a whole time.Time struct to " + cal.String() + via
								}
							}
						}
						if fnPkgPath(cal) == modPath+"/lib/time" && cal.Blocks != nil && !seenFn[cal] {
							seenFn[cal] = true
							reach = append(reach, cal)
						}
					case *ssa.MakeInterface:
						if isStructTime(x.X.Type()) {
							bad = "converts a whole time.Time struct to an interface (for a formatter, hasher or reflection)" + via
						}
					case *ssa.BinOp:
						if (x.Op == token.EQL || x.Op == token.NEQ) && isStructTime(x.X.Type()) {
							bad = "compares time.Time structs with == (wall clock and location included)" + via
						}
					}
				})
			}
			if bad == "" {
				c.ok(key, c.P.Pos(fn.Pos()), "uses instant-based accessors only")
			} else {
				c.viol(key, c.P.Pos(fn.Pos()), key+" "+bad+": the same instant in two time zones would compare or hash differently")
			}
		}
	}
}

func isStructTime(t types.Type) bool {
	pp, n := namedOf(t)
	if _, isPtr := t.(*types.Pointer); isPtr {
		return false
	}
	if pp == "time" && n == "Time" {
		return true
	}
	if n == "Time" && strings.HasSuffix(pp, "lib/time") {
		return true
	}
	return false
}

// ---------- B3 ----------

func ruleB3(c *Ctx) {
	n := 0
	for _, fn := range c.P.Funcs {
		if (fn.Name() != "Cmp" && fn.Name() != "CompareSameType") || fn.Signature.Recv() == nil || !isProdPkg(fnPkgPath(fn)) {
			continue
		}
		n++
		key := fnName(fn)
		bad := ""
		eachInstr(fn, func(in ssa.Instruction) {
			b, ok := in.(*ssa.BinOp)
			if !ok || b.Op != token.SUB {
				return
			}
			bt, ok := b.Type().Underlying().(*types.Basic)
			if !ok || bt.Info()&types.IsInteger == 0 {
				return
			}
			if _, isK := b.X.(*ssa.Const); isK {
				return
			}
			if _, isK := b.Y.(*ssa.Const); isK {
				return
			}
			// operands that are the small arm of Int.get are int32 values held in an int64: their
			// difference cannot wrap (the repository's own comment says "safe: int32 operands")
			var fromGet func(v ssa.Value, depth int) bool
			fromGet = func(v ssa.Value, depth int) bool {
				ex, ok := v.(*ssa.Extract)
				if !ok || depth > 3 {
					if phi, ok := v.(*ssa.Phi); ok && depth <= 3 {
						for _, e := range phi.Edges {
							if k, isK := e.(*ssa.Const); isK && k.Value != nil {
								continue
							}
							if !fromGet(e, depth+1) {
								return false
							}
						}
						return true
					}
					return false
				}
				call, ok := ex.Tuple.(*ssa.Call)
				if !ok {
					return false
				}
				cal := call.Call.StaticCallee()
				if cal == nil {
					return false
				}
				if ex.Index == 0 && cal.Name() == "get" && cal.Signature.Recv() != nil && isNamed(cal.Signature.Recv().Type(), "starlark", "Int") {
					return true
				}
				// a package-local helper handing on the small arms (e.g. smallOperands(x, y))
				if cal.Blocks != nil && fnPkgPath(cal) == fnPkgPath(fn) {
					okAll, any := true, false
					eachInstr(cal, func(in2 ssa.Instruction) {
						if r, ok := in2.(*ssa.Return); ok && ex.Index < len(r.Results) {
							any = true
							if k, isK := r.Results[ex.Index].(*ssa.Const); isK && k.Value != nil {
								return
							}
							if !fromGet(r.Results[ex.Index], depth+1) {
								okAll = false
							}
						}
					})
					return okAll && any
				}
				return false
			}
			if fromGet(b.X, 0) && fromGet(b.Y, 0) {
				return
			}
			// does the difference decide the result? (compared with 0, returned, or passed to a sign function)
			for _, r := range *b.Referrers() {
				switch x := r.(type) {
				case *ssa.Call:
					if cal := x.Call.StaticCallee(); cal != nil && strings.HasPrefix(strings.ToLower(cal.Name()), "signum") {
						bad = "sign of a 64-bit difference (" + cal.Name() + ") at " + c.P.Pos(b.Pos())
					}
				case *ssa.BinOp:
					if k, isK := constInt(x.Y); isK && k == 0 {
						bad = "sign test of a difference at " + c.P.Pos(b.Pos())
					}
				case *ssa.Return, *ssa.Convert:
					bad = "difference returned as the comparison result at " + c.P.Pos(b.Pos())
				}
			}
		})
		if bad == "" {
			c.ok(key, c.P.Pos(fn.Pos()), "no comparison by subtraction")
		} else {
			c.viol(key, c.P.Pos(fn.Pos()), "comparison derived from "+bad+": the subtraction wraps when the operands are more than 2^63 apart, so the order is not total")
		}
	}
	if n < 5 {
		c.anchorFail("only %d Cmp/CompareSameType implementations", n)
	}
}

// ---------- B4 ----------

func ruleB4(c *Ctx) {
	// the Binary methods of lib/time and the per-operator helpers they delegate to
	var fns []*ssa.Function
	seenB := map[*ssa.Function]bool{}
	for _, fn := range binaryMethods(c.P) {
		if fnPkgPath(fn) != modPath+"/lib/time" {
			continue
		}
		work := []*ssa.Function{fn}
		seenB[fn] = true
		for i := 0; i < len(work) && i < 12; i++ {
			fns = append(fns, work[i])
			eachInstr(work[i], func(in ssa.Instruction) {
				if ci, ok := in.(ssa.CallInstruction); ok {
					if cal := ci.Common().StaticCallee(); cal != nil && cal.Blocks != nil && fnPkgPath(cal) == modPath+"/lib/time" && !seenB[cal] {
						seenB[cal] = true
						work = append(work, cal)
					}
				}
			})
		}
	}
	for _, fn := range fns {
		// the operand: any parameter of interface type starlark.Value
		var yP ssa.Value
		for _, prm := range fn.Params {
			if qualType(prm.Type()) == "starlark.Value" {
				yP = prm
			}
		}
		if yP == nil {
			continue
		}
		// blocks dominated by the ok-edge of y.(starlark.Int)
		eachInstr(fn, func(in ssa.Instruction) {
			ifi, ok := in.(*ssa.If)
			if !ok {
				return
			}
			ex, ok := ifi.Cond.(*ssa.Extract)
			if !ok || ex.Index != 1 {
				return
			}
			ta, ok := ex.Tuple.(*ssa.TypeAssert)
			if !ok || ta.X != yP || qualType(ta.AssertedType) != "starlark.Int" {
				return
			}
			arm := ifi.Block().Succs[0]
			toks := tokenNames(c.P)
			opName := "?"
			for _, pf := range pathFacts(ifi.Block()) {
				if bo, ok := pf.Cond.(*ssa.BinOp); ok && bo.Op == token.EQL && pf.Truth && len(fn.Params) > 1 && bo.X == fn.Params[1] {
					if k, isK := constInt(bo.Y); isK {
						opName = toks[k]
					}
				}
			}
			if opName == "?" {
				opName = fn.Name()
			}
			key := fmt.Sprintf("%s: arm %s with starlark.Int uses integer arithmetic", fnName(fn), opName)
			bad := ""
			for _, b := range fn.Blocks {
				if b != arm && !arm.Dominates(b) {
					continue
				}
				for _, in2 := range b.Instrs {
					switch x := in2.(type) {
					case *ssa.Convert:
						if bt, ok := x.Type().Underlying().(*types.Basic); ok && bt.Info()&types.IsFloat != 0 {
							bad = "converts to " + x.Type().String() + " at " + c.P.Pos(x.Pos())
						}
					case *ssa.Call:
						if cal := x.Call.StaticCallee(); cal != nil && cal.Name() == "Float" && strings.HasSuffix(fnPkgPath(cal), "/starlark") {
							bad = "calls Int.Float at " + c.P.Pos(x.Pos())
						}
					}
				}
			}
			if bad == "" {
				c.ok(key, c.P.Pos(ta.Pos()), "integer arithmetic only")
			} else {
				c.viol(key, c.P.Pos(ta.Pos()), "the arm for an integer operand "+bad+": results lose precision above 2^53 nanoseconds instead of being exact")
			}
		})
	}
}

var _ = constant.Int

// opSetsAt computes, for every block of fn, the set of operator constants the
// parameter opP can hold when the block executes (nil = unconstrained).
func opSetsAt(fn *ssa.Function, opP ssa.Value) map[*ssa.BasicBlock]map[int64]bool {
	const anyKey = int64(-1 << 62)
	sets := map[*ssa.BasicBlock]map[int64]bool{}
	if len(fn.Blocks) == 0 {
		return sets
	}
	sets[fn.Blocks[0]] = map[int64]bool{anyKey: true}
	for changed := true; changed; {
		changed = false
		for _, b := range fn.Blocks {
			cur := sets[b]
			if cur == nil {
				continue
			}
			push := func(succ *ssa.BasicBlock, s map[int64]bool) {
				if sets[succ] == nil {
					sets[succ] = map[int64]bool{}
				}
				for k := range s {
					if !sets[succ][k] {
						sets[succ][k] = true
						changed = true
					}
				}
			}
			if len(b.Instrs) > 0 {
				if ifi, ok := b.Instrs[len(b.Instrs)-1].(*ssa.If); ok {
					if bo, ok := ifi.Cond.(*ssa.BinOp); ok && bo.Op == token.EQL && (bo.X == opP || bo.Y == opP) {
						kv := bo.Y
						if bo.Y == opP {
							kv = bo.X
						}
						if k, isK := constInt(kv); isK {
							push(b.Succs[0], map[int64]bool{k: true})
							rest := map[int64]bool{}
							for x := range cur {
								if x != k {
									rest[x] = true
								}
							}
							push(b.Succs[1], rest)
							continue
						}
					}
				}
			}
			for _, s := range b.Succs {
				push(s, cur)
			}
		}
	}
	for _, s := range sets {
		if s[anyKey] {
			for k := range s {
				delete(s, k)
			}
			s[anyKey] = true
		}
	}
	return sets
}

func ruleB5(c *Ctx) {
	toks := tokenNames(c.P)
	const anyKey = int64(-1 << 62)
	n := 0
	for _, fn := range binaryMethods(c.P) {
		opP := fn.Params[1]
		sets := opSetsAt(fn, opP)
		eachInstr(fn, func(in ssa.Instruction) {
			r, ok := in.(*ssa.Return)
			if !ok || len(r.Results) != 2 || isNilConst(r.Results[0]) {
				return
			}
			n++
			s := sets[r.Block()]
			var names []string
			for k := range s {
				if k == anyKey {
					names = append(names, "<any>")
				} else {
					names = append(names, toks[k])
				}
			}
			sort.Strings(names)
			key := fmt.Sprintf("%s: value returned under %s", fnName(fn), strings.Join(names, "|"))
			pos := c.P.Pos(leakPos(r))
			switch {
			case len(s) == 1 && !s[anyKey]:
				c.ok(key, pos, "reachable under exactly one operator")
			case s[anyKey]:
				// no switch on op at all on this path (e.g. an if-form `y.(*T) && op == PLUS` lowers to nested ifs handled above); accept if some dominating condition tests op
				tested := false
				for _, pf := range pathFacts(r.Block()) {
					if bo, ok := pf.Cond.(*ssa.BinOp); ok && (bo.X == opP || bo.Y == opP) {
						tested = true
					}
				}
				if tested {
					c.ok(key, pos, "operator tested on the path")
				} else {
					c.viol(key, pos, "a Binary method returns a value without ever testing which operator was applied")
				}
			default:
				// merged case: the returned value must depend on op (computed from a phi/branch on op after the merge)
				dep := false
				for y := range backSlice(r.Results[0]) {
					if phi, ok := y.(*ssa.Phi); ok {
						for _, pred := range phi.Block().Preds {
							if len(pred.Instrs) > 0 {
								if ifi, ok := pred.Instrs[len(pred.Instrs)-1].(*ssa.If); ok {
									if bo, ok := ifi.Cond.(*ssa.BinOp); ok && (bo.X == opP || bo.Y == opP) {
										dep = true
									}
								}
							}
						}
					}
				}
				if dep {
					c.ok(key, pos, "merged case, but the result is selected by a further test of the operator")
				} else {
					c.viol(key, pos, fmt.Sprintf("the same value is computed for operators %s: at least one of them yields the result of a different operation than the one written", strings.Join(names, " and ")))
				}
			}
		})
	}
	if n < 5 {
		c.anchorFail("only %d value-returning arms found in Binary methods", n)
	}
}
