package main

import (
	"fmt"
	"go/token"
	"go/types"
	"sort"
	"strings"

	"golang.org/x/tools/go/ssa"
)

func init() {
	register("M1", "checkMutable soundness: every checkMutable method returns nil only on paths where the receiver's frozen flag is false and its itercount is zero", 4, ruleM1)
	register("F1", "flag-first Freeze: a Freeze that descends into contained values is guarded by !frozen with the flag set before the first descent, or its type is immutable after construction (so no value cycle can consist of such types only)", 8, ruleF1)
	register("F2", "Freeze edge coverage: every Value-holding leaf field reachable by type containment from a Value type is read in its Freeze call tree and flows to a Freeze receiver", 10, ruleF2)
	register("F3", "module freeze on every exit: in ExecFileOptions every path from Program.Init's return to a function return passes through StringDict.Freeze on Init's result", 1, ruleF3)
	register("W2", "predeclared/universe never written: every map update/delete on a StringDict targets a map created in the same function, or is a named API contract", 5, ruleW2)
	register("W4", "tuple storage is write-once: every store through an element address of a Tuple is on storage allocated in the same function", 3, ruleW4)
}

// ---------- M1 ----------

func ruleM1(c *Ctx) {
	n := 0
	for _, fn := range c.P.Funcs {
		if fn.Name() != "checkMutable" || fn.Signature.Recv() == nil || !isProdPkg(fnPkgPath(fn)) {
			continue
		}
		n++
		recv := fn.Params[0]
		eachInstr(fn, func(in ssa.Instruction) {
			r, ok := in.(*ssa.Return)
			if !ok || len(r.Results) != 1 {
				return
			}
			key := fnName(fn) + ": return"
			pos := c.P.Pos(r.Pos())
			if !isNilConst(r.Results[0]) {
				// error return (or phi): make sure a nil edge of a phi is also covered
				if phi, ok := r.Results[0].(*ssa.Phi); ok {
					for _, e := range phi.Edges {
						if isNilConst(e) {
							c.viol(key+" (phi)", pos, "checkMutable merges nil and non-nil results; path conditions cannot be established")
						}
					}
				}
				return
			}
			var notFrozen, noIter bool
			for _, pf := range pathFacts(r.Block()) {
				cond, neg := pf.Cond, false
				taken := pf.Truth != neg // cond value on this path
				// frozen test: load of recv.frozen or *recv.frozen
				if ld, ok := cond.(*ssa.UnOp); ok && ld.Op == token.MUL {
					tr := traceAddr(ld.X)
					if len(tr.fields) > 0 && tr.fields[0].Name() == "frozen" && len(tr.bases) == 1 && tr.bases[0].v == recv && !taken {
						notFrozen = true
					}
				}
				if b, ok := cond.(*ssa.BinOp); ok {
					tr := traceAddr(b.X)
					if len(tr.fields) > 0 && tr.fields[0].Name() == "itercount" && len(tr.bases) == 1 && tr.bases[0].v == recv {
						if k, isK := constInt(b.Y); isK && k == 0 {
							// itercount > 0 false, itercount != 0 false, itercount == 0 true
							switch {
							case (b.Op == token.GTR || b.Op == token.NEQ) && !taken:
								noIter = true
							case (b.Op == token.EQL || b.Op == token.LEQ) && taken:
								noIter = true
							}
						}
					}
				}
			}
			switch {
			case notFrozen && noIter:
				c.ok(key, pos, "nil result control-dependent on !frozen and itercount == 0 of the receiver")
			case !notFrozen:
				c.viol(key, pos, "checkMutable can return nil without having tested that the receiver is not frozen")
			default:
				c.viol(key, pos, "checkMutable can return nil without having tested that no iteration is in progress (itercount == 0)")
			}
		})
	}
	if n == 0 {
		c.anchorFail("no checkMutable method found")
	}
}

// ---------- Value types ----------

func valueIface(p *Prog) *types.Interface {
	n := p.Named("starlark", "Value")
	if n == nil {
		return nil
	}
	i, _ := n.Underlying().(*types.Interface)
	return i
}

// valueTypes returns the module's concrete named types implementing
// starlark.Value (as T or *T), production packages only.
func valueTypes(p *Prog) []types.Type {
	vi := valueIface(p)
	if vi == nil {
		return nil
	}
	var out []types.Type
	for _, pk := range p.Pkgs {
		if !isProdPkg(pk.PkgPath) {
			continue
		}
		sc := pk.Types.Scope()
		for _, name := range sc.Names() {
			tn, ok := sc.Lookup(name).(*types.TypeName)
			if !ok || tn.IsAlias() {
				continue
			}
			t := tn.Type()
			if _, isI := t.Underlying().(*types.Interface); isI {
				continue
			}
			if types.Implements(t, vi) {
				out = append(out, t)
			} else if types.Implements(types.NewPointer(t), vi) {
				out = append(out, types.NewPointer(t))
			}
		}
	}
	return out
}

func hasMethod(t types.Type, name string) bool {
	ms := types.NewMethodSet(t)
	for i := 0; i < ms.Len(); i++ {
		if ms.At(i).Obj().Name() == name {
			return true
		}
	}
	return false
}

// valueLike: a type whose values are (collections of) freezable values.
func valueLike(t types.Type) bool {
	switch u := t.Underlying().(type) {
	case *types.Interface:
		return hasMethod(t, "Freeze")
	case *types.Slice:
		return valueLike(u.Elem())
	case *types.Array:
		return valueLike(u.Elem())
	case *types.Map:
		return valueLike(u.Elem()) || valueLike(u.Key())
	case *types.Pointer:
		// pointer to a Value-implementing struct of the module (e.g. *cell is stored in a Tuple as Value; *List)
		if _, ok := u.Elem().Underlying().(*types.Struct); ok && hasMethod(t, "Freeze") && hasMethod(t, "Hash") {
			return true
		}
	}
	return false
}

type leaf struct {
	field *types.Var
	owner string // qualified struct name
	path  string
}

// leafFields walks type containment from struct type st.
func leafFields(st types.Type, path string, seen map[types.Type]bool, out *[]leaf) {
	st = deref(st)
	if seen[st] {
		return
	}
	seen[st] = true
	s, ok := st.Underlying().(*types.Struct)
	if !ok {
		return
	}
	for i := 0; i < s.NumFields(); i++ {
		f := s.Field(i)
		ft := f.Type()
		if valueLike(ft) {
			*out = append(*out, leaf{f, qualType(st), path + "." + f.Name()})
			continue
		}
		// containers of module structs
		et := ft
		for {
			switch u := et.Underlying().(type) {
			case *types.Pointer:
				et = u.Elem()
				continue
			case *types.Slice:
				et = u.Elem()
				continue
			case *types.Array:
				et = u.Elem()
				continue
			}
			break
		}
		if pkg, _ := namedOf(et); strings.HasPrefix(pkg, modPath) {
			if _, ok := et.Underlying().(*types.Struct); ok {
				leafFields(et, path+"."+f.Name(), seen, out)
			}
		}
	}
}

// freezeTree returns the functions of Freeze's static call tree inside the
// module that belong to the freezing of the same object: the method itself and
// callees named freeze/Freeze reached on fields of the receiver by static call.
func freezeTree(fn *ssa.Function) []*ssa.Function {
	seen := map[*ssa.Function]bool{fn: true}
	work := []*ssa.Function{fn}
	for i := 0; i < len(work); i++ {
		eachInstr(work[i], func(in ssa.Instruction) {
			// function literals created here (the body of `for e := range ht.inOrder { e.key.Freeze() }`)
			if mc, isMC := in.(*ssa.MakeClosure); isMC {
				if lit, isFn := mc.Fn.(*ssa.Function); isFn && lit.Blocks != nil && !seen[lit] && len(seen) <= 12 && strings.HasPrefix(fnPkgPath(lit), modPath) {
					seen[lit] = true
					work = append(work, lit)
				}
			}
			ci, ok := in.(ssa.CallInstruction)
			if !ok {
				return
			}
			cal := ci.Common().StaticCallee()
			if cal == nil || cal.Blocks == nil || seen[cal] || !strings.HasPrefix(fnPkgPath(cal), modPath) {
				return
			}
			if len(seen) > 12 {
				return
			}
			seen[cal] = true
			work = append(work, cal)
		})
	}
	return work
}

func isFreezeCall(ci ssa.CallInstruction) (recv ssa.Value, ok bool) {
	cc := ci.Common()
	if cc.IsInvoke() {
		if cc.Method.Name() == "Freeze" {
			return cc.Value, true
		}
		return nil, false
	}
	cal := cc.StaticCallee()
	if cal != nil && (cal.Name() == "Freeze" || cal.Name() == "freeze") && cal.Signature.Recv() != nil && len(cc.Args) > 0 {
		return cc.Args[0], true
	}
	return nil, false
}

// f2Exceptions: leaf fields deliberately not followed by Freeze.
var f2Exceptions = map[string]string{
	"starlark.Function/.module.predeclared":     "predeclared values belong to the host; the module's own globals are frozen by ExecFile (F3)",
	"starlark.Function/.module.globals":         "module globals are frozen by ExecFile/Init's caller (F3), not through each function",
	"starlark.Function/.module.constants":       "program constants are immutable values (string, bytes, int, float)",
	"starlarkstruct.Struct/.constructor":        "the constructor is a brand chosen by the host (a string or a function), not listed among the property's edges",
	"starlark.Thread/*":                         "not a Value",
	"starlark.Builtin/.recv (via BindReceiver)": "",
}

func ruleF2(c *Ctx) {
	vts := valueTypes(c.P)
	if len(vts) < 20 {
		c.anchorFail("only %d Value types discovered", len(vts))
	}
	// extra freezable non-Value carriers
	type subj struct {
		t    types.Type
		name string
	}
	var subjects []subj
	for _, t := range vts {
		subjects = append(subjects, subj{t, qualType(t)})
	}
	if n := c.P.Named("starlark", "cell"); n != nil {
		subjects = append(subjects, subj{types.NewPointer(n), "starlark.cell"})
	} else {
		c.anchorFail("type starlark.cell not found")
	}
	sort.Slice(subjects, func(i, j int) bool { return subjects[i].name < subjects[j].name })
	doneSubj := map[string]bool{}
	for _, sj := range subjects {
		if doneSubj[sj.name] {
			continue
		}
		doneSubj[sj.name] = true
		msel := types.NewMethodSet(sj.t).Lookup(nil, "Freeze")
		if msel == nil {
			// find through package
			for i := 0; i < types.NewMethodSet(sj.t).Len(); i++ {
				if m := types.NewMethodSet(sj.t).At(i); m.Obj().Name() == "Freeze" {
					msel = m
				}
			}
		}
		if msel == nil {
			c.viol(sj.name+": Freeze", "-", "Value type without a Freeze method")
			continue
		}
		fz := c.P.SSA.FuncValue(msel.Obj().(*types.Func))
		if fz == nil || fz.Blocks == nil {
			continue
		}
		// covered fields/kinds
		covered := map[*types.Var]bool{}
		coveredElems := false
		for _, f := range freezeTree(fz) {
			f := f
			eachInstr(f, func(in ssa.Instruction) {
				ci, ok := in.(ssa.CallInstruction)
				if !ok {
					return
				}
				rv, ok := isFreezeCall(ci)
				if !ok {
					return
				}
				tr := traceAddr(rv)
				for _, fl := range tr.fields {
					covered[fl] = true
				}
				if len(tr.fields) == 0 {
					coveredElems = true
				}
				// the receiver is (an element of) a parameter of a helper in the tree, e.g.
				// freezeTuples(fn.defaults, fn.freevars): follow it to the arguments at the helper's call sites
				if f != fz {
					for _, b := range tr.bases {
						prm, ok := b.v.(*ssa.Parameter)
						if !ok {
							continue
						}
						idx := -1
						for i, q := range f.Params {
							if q == prm {
								idx = i
							}
						}
						for _, g := range freezeTree(fz) {
							eachInstr(g, func(in2 ssa.Instruction) {
								cs, ok := in2.(ssa.CallInstruction)
								if !ok || cs.Common().StaticCallee() != f || idx < 0 || idx >= len(cs.Common().Args) {
									return
								}
								arg := cs.Common().Args[idx]
								vals := []ssa.Value{arg}
								for _, e := range variadicElems(arg) {
									vals = append(vals, e)
								}
								for _, v := range vals {
									for _, fl := range traceAddr(v).fields {
										covered[fl] = true
									}
								}
							})
						}
					}
				}
			})
		}
		st := deref(sj.t)
		switch u := st.Underlying().(type) {
		case *types.Struct:
			var leaves []leaf
			leafFields(st, "", map[types.Type]bool{}, &leaves)
			for _, lf := range leaves {
				key := sj.name + "/" + lf.path
				pos := c.P.Pos(lf.field.Pos())
				if covered[lf.field] {
					c.ok(key, pos, "field flows to a Freeze receiver in "+fnName(fz)+"'s call tree")
				} else if r, ok := f2Exceptions[key]; ok {
					c.except(key, pos, r)
				} else {
					c.viol(key, pos, fmt.Sprintf("Value-holding field %s of %s is not frozen by %s: no Freeze call in its call tree has a receiver read from this field", lf.path, sj.name, fnName(fz)))
				}
			}
			_ = u
		case *types.Slice, *types.Map, *types.Array:
			if valueLike(st) {
				key := sj.name + "/elements"
				if coveredElems {
					c.ok(key, c.P.Pos(fz.Pos()), "elements flow to a Freeze receiver")
				} else {
					c.viol(key, c.P.Pos(fz.Pos()), "collection type's Freeze does not freeze its elements")
				}
			}
		}
	}
	// StringDict
	if fz := c.P.Func("starlark", "StringDict.Freeze"); fz != nil {
		found := false
		eachInstr(fz, func(in ssa.Instruction) {
			if ci, ok := in.(ssa.CallInstruction); ok {
				if rv, ok := isFreezeCall(ci); ok {
					tr := traceAddr(rv)
					for _, b := range tr.bases {
						if b.v == fz.Params[0] {
							found = true
						}
					}
				}
			}
		})
		if found {
			c.ok("starlark.StringDict/values", c.P.Pos(fz.Pos()), "map values flow to a Freeze receiver")
		} else {
			c.viol("starlark.StringDict/values", c.P.Pos(fz.Pos()), "StringDict.Freeze does not freeze every value of the map")
		}
	} else {
		c.anchorFail("StringDict.Freeze not found")
	}
}

// ---------- F1 ----------

// mutableAfterConstruction: does W1 know a non-fresh store into a field of
// the named struct type?
func mutableTypes(p *Prog) map[string]string {
	m := map[string]string{}
	for _, s := range w1Census(p).sites {
		if s.class == "G0" || s.class == "G5" {
			continue
		}
		ot := qualType(ownerOfField(s.tr, s.field))
		if s.field.Name() == "frozen" || s.field.Name() == "itercount" {
			continue
		}
		if _, ok := m[ot]; !ok {
			m[ot] = fmt.Sprintf("%s in %s", s.fkey, fnName(s.fn))
		}
	}
	return m
}

func ruleF1(c *Ctx) {
	mut := mutableTypes(c.P)
	var fzs []*ssa.Function
	for _, fn := range c.P.Funcs {
		if (fn.Name() == "Freeze" || fn.Name() == "freeze") && fn.Signature.Recv() != nil && isProdPkg(fnPkgPath(fn)) {
			fzs = append(fzs, fn)
		}
	}
	if len(fzs) < 20 {
		c.anchorFail("only %d Freeze methods found", len(fzs))
	}
	for _, fn := range fzs {
		recvT := fn.Signature.Recv().Type()
		tname := qualType(recvT)
		key := fnName(fn)
		pos := c.P.Pos(fn.Pos())
		// descents: Freeze calls (dynamic or static) in this function's body
		var descents []ssa.CallInstruction
		eachInstr(fn, func(in ssa.Instruction) {
			if ci, ok := in.(ssa.CallInstruction); ok {
				if _, ok := isFreezeCall(ci); ok {
					descents = append(descents, ci)
				}
			}
		})
		if len(descents) == 0 {
			c.trivial(key, pos, "no descent: leaf type or flag-only Freeze")
			continue
		}
		// does the receiver's struct have a frozen flag?
		hasFlag := false
		if st, ok := deref(recvT).Underlying().(*types.Struct); ok {
			for i := 0; i < st.NumFields(); i++ {
				if st.Field(i).Name() == "frozen" {
					hasFlag = true
				}
			}
		}
		if hasFlag {
			okAll := true
			for _, d := range descents {
				// guard: dominated by !recv.frozen
				roots := []base{{v: fn.Params[0]}}
				g := frozenGuard(fn, d.Block(), roots, d)
				if g == "" {
					c.viol(key+": descent", c.P.Pos(d.Pos()), "Freeze descends into contained values without a dominating !frozen test of the receiver: re-freezing walks (and on a cyclic graph never leaves) the object graph")
					okAll = false
					continue
				}
				// flag store precedes descent
				stored := false
				eachInstr(fn, func(in ssa.Instruction) {
					st, ok := in.(*ssa.Store)
					if !ok {
						return
					}
					tr := traceAddr(st.Addr)
					if len(tr.fields) > 0 && tr.fields[0].Name() == "frozen" && len(tr.bases) == 1 && tr.bases[0].v == fn.Params[0] {
						if k, ok := st.Val.(*ssa.Const); ok && k.Value != nil && k.Value.String() == "true" && precedes(st, d) {
							stored = true
						}
					}
				})
				if !stored {
					c.viol(key+": descent", c.P.Pos(d.Pos()), "the frozen flag is not set to true before descending: a cycle back to this object recurses forever")
					okAll = false
				}
			}
			if okAll {
				c.ok(key, pos, fmt.Sprintf("%d descent(s) guarded by !frozen, flag set first", len(descents)))
			}
			continue
		}
		// static delegation only (d.ht.freeze(), m.Members.Freeze(), fn.defaults.Freeze()): fine if the type itself is immutable
		if why, isMut := mut[tname]; isMut {
			c.viol(key, pos, fmt.Sprintf("%s has no frozen flag but descends into contained values, and the type is mutable after construction (%s): a reference cycle through it makes Freeze recurse until the stack overflows", tname, why))
			continue
		}
		onlyDelegates := true
		for _, d := range descents {
			if d.Common().IsInvoke() {
				onlyDelegates = false
			}
		}
		if onlyDelegates {
			c.ok(key, pos, "delegates to Freeze of its own fields; type has no store after construction")
		} else {
			c.ok(key, pos, "unflagged descent, but the type is never written after construction (W1/W4), so every value cycle passes through a flag-guarded or mutable type")
		}
	}
}

// precedes: a executes before b on every path to b, or a is in a block that
// dominates b's block.
func precedes(a, b ssa.Instruction) bool { return instrDominates(a, b) }

// ---------- F3 ----------

func ruleF3(c *Ctx) {
	fn := c.P.Func("starlark", "ExecFileOptions")
	if fn == nil {
		c.anchorFail("starlark.ExecFileOptions not found")
		return
	}
	var initCall *ssa.Call
	eachInstr(fn, func(in ssa.Instruction) {
		if call, ok := in.(*ssa.Call); ok {
			if cal := call.Call.StaticCallee(); cal != nil && methodIs(cal, "starlark", "Program", "Init") {
				initCall = call
			}
		}
	})
	key := "starlark.ExecFileOptions: Init -> Freeze"
	if initCall == nil {
		c.viol(key, c.P.Pos(fn.Pos()), "ExecFileOptions no longer calls Program.Init (cannot locate the module's globals)")
		return
	}
	// blocks containing a Freeze of Init's first result
	isFreeze := func(in ssa.Instruction) bool {
		ci, ok := in.(ssa.CallInstruction)
		if !ok {
			return false
		}
		rv, ok := isFreezeCall(ci)
		if !ok {
			return false
		}
		for _, b := range traceAddr(rv).bases {
			if ex, ok := b.v.(*ssa.Extract); ok && ex.Tuple == initCall && ex.Index == 0 {
				return true
			}
		}
		return false
	}
	// forward search from initCall for a Return not preceded by Freeze
	bad := pathAvoiding(initCall, isFreeze, func(in ssa.Instruction) bool { _, ok := in.(*ssa.Return); return ok })
	if bad != nil {
		c.viol(key, c.P.Pos(bad.Pos()), "a return is reachable after Program.Init without freezing the module's globals (on this exit the globals stay mutable)")
		return
	}
	c.ok(key, c.P.Pos(initCall.Pos()), "every path from Init to a return passes StringDict.Freeze on Init's result (error path included)")
}

// pathAvoiding searches forward from instruction `from` (exclusive) for an
// instruction satisfying target reachable without passing one satisfying stop.
func pathAvoiding(from ssa.Instruction, stop, target func(ssa.Instruction) bool) ssa.Instruction {
	b := from.Block()
	start := 0
	for i, in := range b.Instrs {
		if in == from {
			start = i + 1
		}
	}
	seen := map[*ssa.BasicBlock]bool{}
	var visit func(b *ssa.BasicBlock, i int) ssa.Instruction
	visit = func(b *ssa.BasicBlock, i int) ssa.Instruction {
		for ; i < len(b.Instrs); i++ {
			in := b.Instrs[i]
			if stop(in) {
				return nil
			}
			if target(in) {
				return in
			}
		}
		for _, s := range b.Succs {
			if seen[s] {
				continue
			}
			seen[s] = true
			if r := visit(s, 0); r != nil {
				return r
			}
		}
		return nil
	}
	return visit(b, start)
}

// ---------- W2 ----------

var w2Exceptions = map[string]string{
	"starlark.ExecREPLChunk":                "API contract: the REPL's globals dictionary is supplied by the caller to be updated",
	"(*starlarkstruct.Struct).ToStringDict": "API contract: fills the dictionary supplied by the caller",
}

func ruleW2(c *Ctx) {
	fc := computeReturnsFresh(c.P)
	for _, s := range collectStores(c.P) {
		if s.kind != "mapupdate" && s.kind != "delete" && s.kind != "clear" {
			continue
		}
		mt := s.addr.Type()
		if !isNamed(mt, "starlark", "StringDict") {
			// maps that alias a StringDict's storage?
			if _, ok := mt.Underlying().(*types.Map); !ok {
				continue
			}
			tr := traceAddr(s.addr)
			isSD := false
			for _, b := range tr.bases {
				if isNamed(b.v.Type(), "starlark", "StringDict") {
					isSD = true
				}
			}
			if !isSD {
				continue
			}
		}
		key := fmt.Sprintf("%s: %s StringDict", fnName(s.fn), s.kind)
		pos := c.P.Pos(s.instr.Pos())
		tr := traceAddr(s.addr)
		bases := resolveBases(s.fn, tr.bases)
		fresh := len(bases) > 0
		for _, b := range bases {
			if b.throughPtr || len(tr.fields) > 0 || !isFreshValue(fc, b.v) {
				fresh = false
			}
		}
		if fresh {
			c.trivial(key, pos, "map created in this function")
			continue
		}
		if freshViaField(fc, s.fn, tr) {
			c.trivial(key, pos, "map created in this function and held in a field of an object created here")
			continue
		}
		// a private helper that fills the map it is given: judged at its call sites
		if w2HelperOK(c.P, fc, outermost(s.fn), bases, 0) {
			c.ok(key, pos, "private helper: every call site passes a map created there, or is a named API contract")
			continue
		}
		if r, ok := w2Exceptions[fnName(outermost(s.fn))]; ok {
			c.except(key, pos, r)
			continue
		}
		if outermost(s.fn).Name() == "init" {
			c.trivial(key, pos, "package initialisation")
			continue
		}
		c.viol(key, pos, "writes an entry of a StringDict that was not created in this function (predeclared environment, universe or module members could be rebound): "+describeBases(bases))
	}
}

// ---------- W4 ----------

func ruleW4(c *Ctx) {
	fc := computeReturnsFresh(c.P)
	for _, s := range collectStores(c.P) {
		if s.kind != "store" && s.kind != "copy" {
			continue
		}
		// destination is an element of something typed Tuple
		isTuple := false
		var v ssa.Value = s.addr
		seen := map[ssa.Value]bool{}
		for v != nil && !seen[v] {
			seen[v] = true
			if isNamed(v.Type(), "starlark", "Tuple") {
				isTuple = true
			}
			switch x := v.(type) {
			case *ssa.IndexAddr:
				v = x.X
			case *ssa.Slice:
				v = x.X
			case *ssa.ChangeType:
				v = x.X
			default:
				v = nil
			}
		}
		if !isTuple {
			continue
		}
		if s.kind == "store" {
			if _, ok := s.addr.(*ssa.IndexAddr); !ok {
				continue
			}
		}
		key := fmt.Sprintf("%s: %s Tuple element", fnName(s.fn), s.kind)
		pos := c.P.Pos(s.instr.Pos())
		tr := traceAddr(s.addr)
		fresh := len(tr.bases) > 0 && len(tr.fields) == 0
		for _, b := range resolveBases(s.fn, tr.bases) {
			if b.throughPtr || !isFreshValue(fc, b.v) {
				fresh = false
			}
		}
		if fresh {
			c.ok(key, pos, "tuple storage allocated in this function")
		} else {
			c.viol(key, pos, "writes an element of a tuple that was not allocated in this function (tuples are immutable and hashable): "+describeBases(tr.bases))
		}
	}
}

// ---------- F4 ----------

func init() {
	register("F4", "freeze flags are set only by freezing: every store to a `frozen` flag (a bool field, or the bool behind a `frozen` pointer field) writes the constant true from inside a Freeze method (which then descends, F1/F2) or the constant false; a flag is never computed or copied from another object's flag, which would mark a value frozen without freezing what it holds", 3, ruleF4)
	claim("C04", "F4")
	claim("C20", "F4")
}

func ruleF4(c *Ctx) {
	n := 0
	for _, fn := range c.P.Funcs {
		if !isProdPkg(fnPkgPath(fn)) {
			continue
		}
		fn := fn
		eachInstr(fn, func(in ssa.Instruction) {
			st, ok := in.(*ssa.Store)
			if !ok {
				return
			}
			owner := ""
			switch a := st.Addr.(type) {
			case *ssa.FieldAddr:
				stt, _ := deref(a.X.Type()).Underlying().(*types.Struct)
				if stt == nil || stt.Field(a.Field).Name() != "frozen" {
					return
				}
				if b, ok := stt.Field(a.Field).Type().Underlying().(*types.Basic); !ok || b.Kind() != types.Bool {
					return
				}
				owner = qualType(a.X.Type())
			case *ssa.UnOp:
				// *x.frozen = ...
				fa, ok := a.X.(*ssa.FieldAddr)
				if !ok || a.Op != token.MUL {
					return
				}
				stt, _ := deref(fa.X.Type()).Underlying().(*types.Struct)
				if stt == nil || stt.Field(fa.Field).Name() != "frozen" {
					return
				}
				owner = qualType(fa.X.Type())
			case *ssa.Parameter:
				// a helper that is handed the flag's address (setFrozen(m.frozen)): every caller must
				// pass a `frozen` pointer field and be a Freeze method
				pt, ok := a.Type().(*types.Pointer)
				if !ok {
					return
				}
				if b, ok := pt.Elem().Underlying().(*types.Basic); !ok || b.Kind() != types.Bool {
					return
				}
				idx := -1
				for i, q := range fn.Params {
					if q == a {
						idx = i
					}
				}
				flagArgs, fromFreeze, sites := true, true, 0
				for _, g := range callersOf(c.P, fn) {
					eachInstr(g, func(in2 ssa.Instruction) {
						ci, ok := in2.(ssa.CallInstruction)
						if !ok || ci.Common().StaticCallee() != fn || idx < 0 || idx >= len(ci.Common().Args) {
							return
						}
						sites++
						isFlag := false
						if u, ok := ci.Common().Args[idx].(*ssa.UnOp); ok {
							if fa, ok := u.X.(*ssa.FieldAddr); ok {
								if stt, _ := deref(fa.X.Type()).Underlying().(*types.Struct); stt != nil && stt.Field(fa.Field).Name() == "frozen" {
									isFlag = true
								}
							}
						}
						if !isFlag {
							flagArgs = false
						}
						if !strings.EqualFold(outermost(g).Name(), "freeze") {
							fromFreeze = false
						}
					})
				}
				if sites == 0 || !flagArgs {
					return // not a freeze-flag helper
				}
				n++
				key := fmt.Sprintf("%s: store through flag pointer parameter", fnName(fn))
				pos := c.P.Pos(st.Pos())
				k, isConst := st.Val.(*ssa.Const)
				switch {
				case !isConst:
					c.viol(key, pos, "the freeze flag is computed instead of being set by Freeze")
				case k.Value != nil && k.Value.String() == "false":
					c.ok(key, pos, "resets the flag to false")
				case fromFreeze:
					c.ok(key, pos, "constant true, in a helper called only from Freeze methods with their own flag")
				default:
					c.viol(key, pos, "the freeze flag is set by a helper that is also called outside Freeze methods: nothing guarantees that the contained values are frozen too")
				}
				return
			default:
				return
			}
			n++
			key := fmt.Sprintf("%s: store %s.frozen", fnName(fn), owner)
			pos := c.P.Pos(st.Pos())
			k, isConst := st.Val.(*ssa.Const)
			switch {
			case !isConst:
				c.viol(key, pos, "the freeze flag is computed (copied or combined from other flags) instead of being set by Freeze: the value is marked frozen although the values it holds were never frozen, and its own Freeze will skip them")
			case k.Value != nil && k.Value.String() == "false":
				c.ok(key, pos, "resets the flag to false")
			case strings.EqualFold(outermost(fn).Name(), "freeze"):
				c.ok(key, pos, "constant true inside a Freeze method")
			default:
				c.viol(key, pos, "the freeze flag is set outside a Freeze method: nothing guarantees that the contained values are frozen too")
			}
		})
	}
	if n < 3 {
		c.anchorFail("only %d stores to freeze flags found", n)
	}
}

// ---------- F5 ----------

func init() {
	register("F5", "memoised Freeze is sound: a type whose Freeze is skipped once its frozen flag is set does not hold values of a type that can be rebound after construction without a flag of its own (a closure's cells): such contents can change after the first Freeze, and the memo would leave the later binding unfrozen. Holders are found from the type assertions the code itself performs on a field's elements", 1, ruleF5)
	claim("C04", "F5")
	claim("C05", "F5")
}

func ruleF5(c *Ctx) {
	mut := mutableTypes(c.P)
	// unflagged carriers that are written after construction
	carriers := map[string]string{}
	for tname, why := range mut {
		n := c.P.NamedQ(tname)
		if n == nil {
			continue
		}
		st, ok := n.Underlying().(*types.Struct)
		if !ok {
			continue
		}
		flagged := false
		for i := 0; i < st.NumFields(); i++ {
			if st.Field(i).Name() == "frozen" {
				flagged = true
			}
		}
		// a carrier has a Freeze method (it takes part in freezing) but no flag
		hasFreeze := false
		ms := types.NewMethodSet(types.NewPointer(n))
		for i := 0; i < ms.Len(); i++ {
			if ms.At(i).Obj().Name() == "Freeze" {
				hasFreeze = true
			}
		}
		if !flagged && hasFreeze {
			carriers[tname] = why
		}
	}
	// who holds carriers: fields whose (elements') dynamic type the code asserts to be a carrier
	holders := map[string]string{} // owner type -> "field f holds T (asserted at pos)"
	for _, fn := range c.P.Funcs {
		if !isProdPkg(fnPkgPath(fn)) {
			continue
		}
		eachInstr(fn, func(in ssa.Instruction) {
			ta, ok := in.(*ssa.TypeAssert)
			if !ok {
				return
			}
			tn := qualType(ta.AssertedType)
			if _, isCarrier := carriers[tn]; !isCarrier {
				return
			}
			tr := traceValue(ta.X)
			for i, f := range tr.fields {
				holders[qualType(tr.owners[i])] = fmt.Sprintf("field %s holds %s (asserted at %s)", f.Name(), tn, c.P.Pos(ta.Pos()))
			}
		})
	}
	n := 0
	for _, fn := range c.P.Funcs {
		if (fn.Name() != "Freeze" && fn.Name() != "freeze") || fn.Signature.Recv() == nil || !isProdPkg(fnPkgPath(fn)) {
			continue
		}
		tname := qualType(fn.Signature.Recv().Type())
		h, isHolder := holders[tname]
		if !isHolder {
			continue
		}
		n++
		key := fnName(fn) + ": memo on a holder of rebindable cells"
		st, _ := deref(fn.Signature.Recv().Type()).Underlying().(*types.Struct)
		flagged := false
		if st != nil {
			for i := 0; i < st.NumFields(); i++ {
				if st.Field(i).Name() == "frozen" {
					flagged = true
				}
			}
		}
		if flagged {
			c.viol(key, c.P.Pos(fn.Pos()), fmt.Sprintf("%s has a frozen flag that lets Freeze skip its contents, but %s, and that type is rebound after construction without a flag of its own (%s): a value bound after the first Freeze is never frozen although it is reachable from a finished module", tname, h, carriers[strings.SplitN(strings.SplitN(h, "holds ", 2)[1], " ", 2)[0]]))
		} else {
			c.ok(key, c.P.Pos(fn.Pos()), tname+" re-walks its contents on every Freeze ("+h+")")
		}
	}
	if len(carriers) == 0 {
		c.trivial("unflagged rebindable carriers", "-", "none: every type written after construction has a frozen flag")
		return
	}
	if n == 0 {
		c.anchorFail("carriers %v exist but no holder was found", carriers)
	}
}

// w2HelperOK: the written map is a parameter of an unexported, never address-taken function, and every
// call site passes a fresh map or lies in a function with a documented contract (w2Exceptions).
func w2HelperOK(p *Prog, fc *freshCtx, fn *ssa.Function, roots []base, depth int) bool {
	if depth > 2 || len(roots) == 0 || fn.Object() == nil || fn.Object().Exported() {
		return false
	}
	var idxs []int
	for _, b := range roots {
		prm, ok := b.v.(*ssa.Parameter)
		if !ok || prm.Parent() != fn || b.throughPtr {
			return false
		}
		for i, q := range fn.Params {
			if q == prm {
				idxs = append(idxs, i)
			}
		}
	}
	n := 0
	okAll := true
	for _, g := range p.Funcs {
		eachInstr(g, func(in ssa.Instruction) {
			for _, op := range in.Operands(nil) {
				if f, ok := (*op).(*ssa.Function); ok && f == fn {
					if ci, ok := in.(ssa.CallInstruction); !ok || ci.Common().Value != f {
						okAll = false
					}
				}
			}
			ci, ok := in.(ssa.CallInstruction)
			if !ok || ci.Common().StaticCallee() != fn {
				return
			}
			n++
			for _, i := range idxs {
				if i >= len(ci.Common().Args) {
					okAll = false
					continue
				}
				arg := ci.Common().Args[i]
				tr := traceAddr(arg)
				bs := resolveBases(g, tr.bases)
				fresh := len(bs) > 0 && len(tr.fields) == 0
				for _, b := range bs {
					if b.throughPtr || !isFreshValue(fc, b.v) {
						fresh = false
					}
				}
				if fresh {
					continue
				}
				if _, ok := w2Exceptions[fnName(outermost(g))]; ok {
					continue
				}
				if w2HelperOK(p, fc, outermost(g), bs, depth+1) {
					continue
				}
				okAll = false
			}
		})
	}
	return n > 0 && okAll
}
