package main

import (
	"fmt"
	"go/token"
	"go/types"
	"sort"
	"strings"

	"golang.org/x/tools/go/ssa"
)

// Tracked shared types: the storage whose mutation the freeze / iteration
// protocol governs (W1), by qualified name.
var trackedTypes = map[string]bool{
	"starlark.List": true, "starlark.hashtable": true, "starlark.bucket": true, "starlark.entry": true,
	"starlark.Dict": true, "starlark.Set": true, "starlark.Function": true, "starlark.Builtin": true,
	"starlark.cell": true, "starlark.Module": true,
	"starlarkstruct.Struct": true, "starlarkstruct.Module": true,
	"internal/compile.Program": true, "starlark.Program": true, "internal/compile.Funcode": true,
	"lib/proto.Message": true, "lib/proto.RepeatedField": true, "lib/proto.MapField": true,
}

// G3: private helpers whose stores are justified at their call sites.
// value: index of the parameter (0 = receiver) that must be fresh/guarded at
// every call site.
var w1Helpers = map[string]string{
	"(*starlark.hashtable).grow": "called only from insert after checkMutable succeeded",
	"(*starlark.hashtable).init": "called on fresh tables or from insert after checkMutable succeeded",
	"starlark.listExtend":        "list += iterable primitive; every caller checks mutability of the list first",
}

// G4: named single-construct exceptions (function -> field -> reason).
var w1Exceptions = map[string]map[string]string{
	"(*starlark.Function).CallInternal": {
		"List.elems":       "APPEND: the operand is the compiler-private accumulator of a list comprehension, unreachable from any other value until the comprehension completes",
		"cell.v":           "SETLOCALCELL: cells are written only through the frame that owns the variable; rebinding a captured variable is not mutation of a frozen value's observable state before freeze (checked separately by F-rules)",
		"Module.globals[]": "SETGLOBAL: emitted only for top-level code, which runs before the module's globals are frozen",
	},
	"starlark.ExecREPLChunk": {
		"Module.globals[]": "seeds the globals array of the brand-new toplevel function returned by makeToplevelFunction, before it runs (REPL globals are never frozen, by contract)",
	},
	"(*internal/compile.Funcode).decodeLNT": {
		"Funcode.lnt": "lazily decoded line table; only reachable as the argument of lntOnce.Do (rule ZONCE)",
	},
}

type storeSite struct {
	fn    *ssa.Function
	instr ssa.Instruction
	addr  ssa.Value
	kind  string // store | mapupdate | copy
}

// collectStores enumerates store-like instructions of the module's
// production functions.
func collectStores(p *Prog) []storeSite {
	var out []storeSite
	for _, fn := range p.Funcs {
		if !isProdPkg(fnPkgPath(fn)) {
			continue
		}
		eachInstr(fn, func(in ssa.Instruction) {
			switch x := in.(type) {
			case *ssa.Store:
				out = append(out, storeSite{fn, in, x.Addr, "store"})
			case *ssa.MapUpdate:
				out = append(out, storeSite{fn, in, x.Map, "mapupdate"})
			case *ssa.Call:
				if b, ok := x.Call.Value.(*ssa.Builtin); ok {
					switch b.Name() {
					case "copy", "clear":
						out = append(out, storeSite{fn, in, x.Call.Args[0], b.Name()})
					case "delete":
						out = append(out, storeSite{fn, in, x.Call.Args[0], "delete"})
					}
				}
			}
		})
	}
	return out
}

func fieldKey(owner string, f *types.Var, tr *trace) string {
	o := owner
	if i := strings.LastIndex(o, "."); i >= 0 {
		o = o[i+1:]
	}
	return o + "." + f.Name()
}

// isFreshValue: is v a new object created in this function (allocation,
// composite literal, make, or call of a returns-fresh function)?
func isFreshValue(c *freshCtx, v ssa.Value) bool {
	return isFreshValue1(c, v, map[ssa.Value]bool{})
}

func isFreshValue1(c *freshCtx, v ssa.Value, seen map[ssa.Value]bool) bool {
	if seen[v] {
		return true // cycle through a phi: decided by the other edges
	}
	seen[v] = true
	switch x := v.(type) {
	case *ssa.Alloc:
		// an aggregate created here is fresh; a variable cell whose content is
		// written through its address (Unpack*) holds a caller-supplied value
		return !isVarCell(x)
	case *ssa.MakeSlice, *ssa.MakeMap:
		return true
	case *ssa.Parameter:
		// only while summarising a helper: "fresh provided this argument is" (computeReturnsFresh)
		if c.assume != nil {
			for i, p := range x.Parent().Params {
				if p == x {
					c.assume[i] = true
					return true
				}
			}
		}
	case *ssa.Call:
		f := x.Call.StaticCallee()
		if f != nil && f.Origin() != nil {
			f = f.Origin() // an instance of a generic helper: judged by the generic body
		}
		if f != nil && c.returnsFresh[f] {
			return true
		}
		if ps, ok := c.passThrough[f]; ok && f != nil && c.assume == nil {
			// a helper that returns its argument extended (func(names []string, ...) []string { ...append...;
			// return names }): its result is as fresh as what it was given
			all := true
			for i := range ps {
				if i >= len(x.Call.Args) || !isFreshValue1(c, x.Call.Args[i], seen) {
					all = false
				}
			}
			if all {
				return true
			}
		}
		if b, ok := x.Call.Value.(*ssa.Builtin); ok && b.Name() == "append" {
			// append to a fresh or nil slice
			return isFreshValue1(c, x.Call.Args[0], seen)
		}
	case *ssa.Const:
		return x.Value == nil // nil slice/map/pointer
	case *ssa.Slice:
		return isFreshValue1(c, x.X, seen)
	case *ssa.Phi:
		for _, e := range x.Edges {
			if !isFreshValue1(c, e, seen) {
				return false
			}
		}
		return true
	}
	return false
}

// freshViaField: the traced storage is reached by loading a reference (map, slice, pointer) from a field
// of an object allocated in this function, and every store this function makes to that field stores a
// fresh value (mod := &Module{Members: make(...)}; mod.Members[k] = v).
func freshViaField(fc *freshCtx, fn *ssa.Function, tr *trace) bool {
	if len(tr.bases) == 0 || len(tr.fields) == 0 {
		return false
	}
	outer := tr.fields[len(tr.fields)-1] // field of the base object
	for _, b := range tr.bases {
		al, ok := b.v.(*ssa.Alloc)
		if !ok || isVarCell(al) || !isFreshValue(fc, al) {
			return false
		}
		stores := 0
		okAll := true
		eachInstr(fn, func(in ssa.Instruction) {
			st, ok := in.(*ssa.Store)
			if !ok {
				return
			}
			fa, ok := st.Addr.(*ssa.FieldAddr)
			if !ok || fa.X != ssa.Value(al) {
				return
			}
			stt := deref(fa.X.Type()).Underlying().(*types.Struct)
			if stt.Field(fa.Field) != outer {
				return
			}
			stores++
			if !isFreshValue(fc, st.Val) {
				okAll = false
			}
		})
		if stores == 0 || !okAll {
			return false
		}
	}
	return true
}

type freshCtx struct {
	returnsFresh map[*ssa.Function]bool
	// passThrough[f] = the parameters the first result of f derives from (by append, slicing, phi) when
	// everything else it may return is fresh
	passThrough map[*ssa.Function]map[int]bool
	assume      map[int]bool // non-nil only while a passThrough summary is being computed
}

// computeReturnsFresh: least fixpoint of "every return operand (first
// result) is an allocation of this function or a call of a returns-fresh
// function".
func computeReturnsFresh(p *Prog) *freshCtx {
	c := &freshCtx{returnsFresh: map[*ssa.Function]bool{}, passThrough: map[*ssa.Function]map[int]bool{}}
	defer func() {
		for _, fn := range p.Funcs {
			if c.returnsFresh[fn] || fn.Signature.Results().Len() == 0 || fn.Signature.Recv() != nil {
				continue
			}
			c.assume = map[int]bool{}
			ok, any := true, false
			eachInstr(fn, func(in ssa.Instruction) {
				r, isr := in.(*ssa.Return)
				if !isr || len(r.Results) == 0 {
					return
				}
				any = true
				tr := traceAddr(r.Results[0])
				if len(tr.fields) > 0 {
					ok = false
					return
				}
				for _, b := range tr.bases {
					if k, isc := b.v.(*ssa.Const); isc && k.Value == nil {
						continue
					}
					if b.throughPtr || !isFreshValue(c, b.v) {
						ok = false
					}
				}
			})
			if ok && any && len(c.assume) > 0 {
				c.passThrough[fn] = c.assume
			}
			c.assume = nil
		}
	}()
	for changed := true; changed; {
		changed = false
		for _, fn := range p.Funcs {
			if c.returnsFresh[fn] || fn.Signature.Results().Len() == 0 {
				continue
			}
			ok, any := true, false
			eachInstr(fn, func(in ssa.Instruction) {
				r, isr := in.(*ssa.Return)
				if !isr || len(r.Results) == 0 {
					return
				}
				any = true
				tr := traceAddr(r.Results[0])
				if len(tr.fields) > 0 {
					ok = false
					return
				}
				for _, b := range tr.bases {
					if b.throughPtr || !isFreshValue(c, b.v) {
						if k, isc := b.v.(*ssa.Const); isc && k.Value == nil {
							continue
						}
						ok = false
					}
				}
			})
			if ok && any {
				c.returnsFresh[fn] = true
				changed = true
			}
		}
	}
	return c
}

type w1Result struct {
	sites []w1Site
}

type w1Site struct {
	storeSite
	owner  string
	field  *types.Var
	fkey   string
	class  string // G0..G4 or ""
	reason string
	tr     *trace
}

var w1Cache = map[*Prog]*w1Result{}

// w1Census classifies every store to tracked storage.
func w1Census(p *Prog) *w1Result {
	if r, ok := w1Cache[p]; ok {
		return r
	}
	fc := computeReturnsFresh(p)
	w1Funcs = p.Funcs
	res := &w1Result{}
	for _, s := range collectStores(p) {
		tr := traceAddr(s.addr)
		owner, field := tr.trackedOwner(trackedTypes)
		if owner == "" {
			continue
		}
		site := w1Site{storeSite: s, owner: owner, field: field, tr: tr}
		site.fkey = fieldKey(qualType(ownerOfField(tr, field)), field, tr)
		if s.kind != "store" || elementStore(s.addr) {
			site.fkey += "[]"
		}
		classifyW1(p, fc, &site)
		res.sites = append(res.sites, site)
	}
	w1Cache[p] = res
	return res
}

func ownerOfField(tr *trace, f *types.Var) types.Type {
	for i, g := range tr.fields {
		if g == f {
			return tr.owners[i]
		}
	}
	return nil
}

// elementStore: the store goes to an element reached through the field
// (slice/array/pointer content) rather than to the field itself.
func elementStore(addr ssa.Value) bool {
	switch addr.(type) {
	case *ssa.FieldAddr:
		return false
	}
	return true
}

// resolveBases maps free variables of closures to the values bound in the
// parent, and returns the final list of bases.
func resolveBases(fn *ssa.Function, bs []base) []base {
	var out []base
	for _, b := range bs {
		if fv, ok := b.v.(*ssa.FreeVar); ok {
			sites := closureSites(fn)
			if len(sites) == 0 {
				out = append(out, b)
				continue
			}
			for _, mc := range sites {
				bind := freeVarBinding(mc, fv)
				if bind == nil {
					out = append(out, b)
					continue
				}
				// the binding is the address of the captured variable
				var inner []base
				if a, ok := bind.(*ssa.Alloc); ok && isVarCell(a) {
					for _, ref := range *a.Referrers() {
						if st, ok := ref.(*ssa.Store); ok && st.Addr == a {
							t := traceAddr(st.Val)
							inner = append(inner, t.bases...)
						}
					}
				} else {
					inner = traceAddr(bind).bases
				}
				for _, ib := range resolveBases(mc.Parent(), inner) {
					ib.throughPtr = ib.throughPtr || b.throughPtr
					out = append(out, ib)
				}
			}
			continue
		}
		out = append(out, b)
	}
	return out
}

func sameBases(a, b []base) bool {
	if len(a) == 0 {
		return false
	}
	for _, x := range a {
		found := false
		for _, y := range b {
			if x.v == y.v {
				found = true
			}
		}
		if !found {
			return false
		}
	}
	return true
}

func classifyW1(p *Prog, fc *freshCtx, s *w1Site) {
	_ = w1Helpers
	fn := s.fn
	name := fnName(fn)
	bases := resolveBases(fn, s.tr.bases)

	// G0 fresh
	fresh := len(bases) > 0
	for _, b := range bases {
		if b.throughPtr || !isFreshValue(fc, b.v) {
			fresh = false
		}
	}
	if fresh {
		s.class, s.reason = "G0", "object allocated in this function"
		return
	}
	if freshViaField(fc, fn, s.tr) {
		s.class, s.reason = "G0", "storage created in this function and held in a field of an object created in this function"
		return
	}

	// G4 named exception
	if m := w1Exceptions[name]; m != nil {
		if r, ok := m[s.fkey]; ok {
			s.class, s.reason = "G4", r
			return
		}
	}

	// non-fresh bases only
	var nf []base
	for _, b := range bases {
		if !b.throughPtr && isFreshValue(fc, b.v) {
			continue
		}
		nf = append(nf, b)
	}

	// G1 checked: dominated by the nil-error edge of checkMutable on the same root
	if g := findCheckMutableGuard(fn, s.instr, nf); g != "" {
		s.class, s.reason = "G1", g
		return
	}

	// G2 frozen-guarded flag/counter store
	if s.field.Name() == "frozen" || s.field.Name() == "itercount" {
		if g := frozenGuard(fn, s.instr.Block(), nf, s.instr); g != "" {
			s.class, s.reason = "G2", g
			return
		}
	}

	// G5 construction phase of compiled programs
	if (s.owner == "internal/compile.Program" || s.owner == "internal/compile.Funcode") && fnPkgPath(fn) == modPath+"/internal/compile" {
		top := outermost(fn)
		recv := ""
		if top.Signature.Recv() != nil {
			_, recv = namedOf(top.Signature.Recv().Type())
		}
		switch recv {
		case "pcomp", "fcomp", "decoder":
			s.class, s.reason = "G5", "compiler/decoder construction function (receiver "+recv+"): the program has not been returned yet"
			return
		case "":
			switch top.Name() {
			case "File", "Expr", "DecodeProgram":
				s.class, s.reason = "G5", "construction entry point "+top.Name()+": the program has not been returned yet"
				return
			}
		}
	}

	// G3 private helper: the written object is a parameter of an unexported,
	// never address-taken function and every call site passes an object that
	// is fresh or checked mutable there (recursively through further helpers)
	if why, ok := helperJustified(p, fc, outermost(fn), nf, 0); ok {
		s.class, s.reason = "G3", why
		return
	}
}

// helperJustified checks the call sites of fn for the parameters in roots.
func helperJustified(p *Prog, fc *freshCtx, fn *ssa.Function, roots []base, depth int) (string, bool) {
	if depth > 3 || len(roots) == 0 {
		return "", false
	}
	if fn.Object() == nil || fn.Object().Exported() {
		return "", false
	}
	var idxs []int
	for _, b := range roots {
		prm, ok := b.v.(*ssa.Parameter)
		if !ok || prm.Parent() != fn {
			return "", false
		}
		for i, q := range fn.Params {
			if q == prm {
				idxs = append(idxs, i)
			}
		}
	}
	ncalls := 0
	for _, g := range p.Funcs {
		bad := false
		eachInstr(g, func(in ssa.Instruction) {
			if bad {
				return
			}
			// address-taken?
			for _, op := range in.Operands(nil) {
				if f, ok := (*op).(*ssa.Function); ok && f == fn {
					if ci, ok := in.(ssa.CallInstruction); !ok || ci.Common().Value != f {
						bad = true
					}
				}
			}
			ci, ok := in.(ssa.CallInstruction)
			if !ok || ci.Common().StaticCallee() != fn {
				return
			}
			ncalls++
			for _, i := range idxs {
				arg := resolveBases(g, traceAddr(ci.Common().Args[i]).bases)
				var nf []base
				for _, b := range arg {
					if b.throughPtr || !isFreshValue(fc, b.v) {
						nf = append(nf, b)
					}
				}
				if len(nf) == 0 {
					continue
				}
				if findCheckMutableGuard(g, in, nf) != "" {
					continue
				}
				if _, ok := helperJustified(p, fc, outermost(g), nf, depth+1); ok {
					continue
				}
				bad = true
			}
		})
		if bad {
			return "", false
		}
	}
	if ncalls == 0 {
		return "", false
	}
	return fmt.Sprintf("private helper %s: all %d call sites pass a fresh or checked-mutable object", fnName(fn), ncalls), true
}

// guardWrappers: functions that return a nil error only after a successful
// checkMutable (or another wrapper) on the object passed as parameter i
// (Min et al.: "treat a wrapper as acquiring the lock when all its paths
// return with the lock held"). Computed as a least fixpoint over the module.
var guardWrapperCache = map[*ssa.Program]map[*ssa.Function]map[int]bool{}

func guardWrappers(prog *ssa.Program, funcs []*ssa.Function) map[*ssa.Function]map[int]bool {
	if m, ok := guardWrapperCache[prog]; ok {
		return m
	}
	m := map[*ssa.Function]map[int]bool{}
	guardWrapperCache[prog] = m
	errT := types.Universe.Lookup("error").Type()
	for changed := true; changed; {
		changed = false
		for _, fn := range funcs {
			res := fn.Signature.Results()
			if res.Len() == 0 || !types.Identical(res.At(res.Len()-1).Type(), errT) || fn.Name() == "checkMutable" {
				continue
			}
			for i, prm := range fn.Params {
				if m[fn][i] {
					continue
				}
				okAll, any := true, false
				eachInstr(fn, func(in ssa.Instruction) {
					r, isr := in.(*ssa.Return)
					if !isr || !isNilConst(r.Results[len(r.Results)-1]) {
						return
					}
					any = true
					if guardDominates(fn, r, []base{{v: prm}}, m) == "" {
						okAll = false
					}
				})
				if okAll && any {
					if m[fn] == nil {
						m[fn] = map[int]bool{}
					}
					m[fn][i] = true
					changed = true
				}
			}
		}
	}
	return m
}

// guardDominates: is instr dominated by the nil-error edge of a checkMutable
// (or guard wrapper) call on the object(s) in roots?
func guardDominates(fn *ssa.Function, instr ssa.Instruction, roots []base, wrappers map[*ssa.Function]map[int]bool) string {
	var found string
	eachInstr(fn, func(in ssa.Instruction) {
		if found != "" {
			return
		}
		call, ok := in.(*ssa.Call)
		if !ok {
			return
		}
		cal := call.Call.StaticCallee()
		if cal == nil {
			return
		}
		var idxs []int
		if cal.Name() == "checkMutable" && cal.Signature.Recv() != nil {
			idxs = []int{0}
		} else if w := wrappers[cal]; w != nil {
			for i := range w {
				idxs = append(idxs, i)
			}
		} else {
			return
		}
		// the error result (single result or last of a tuple)
		var errv ssa.Value = call
		if tup, ok := call.Type().(*types.Tuple); ok {
			errv = nil
			for _, r := range *call.Referrers() {
				if ex, ok := r.(*ssa.Extract); ok && ex.Index == tup.Len()-1 {
					errv = ex
				}
			}
		}
		if errv == nil || !dominatedByNilErr(instr.Block(), errv) {
			return
		}
		for _, i := range idxs {
			if i >= len(call.Call.Args) {
				continue
			}
			recv := resolveBases(fn, traceAddr(call.Call.Args[i]).bases)
			if sameBases(roots, recv) {
				found = "dominated by successful " + fnName(cal)
			}
		}
	})
	return found
}

var w1Funcs []*ssa.Function

// curProg is the program currently being analysed (set by main after loading).
var curProg *Prog

// findCheckMutableGuard looks for a call to a checkMutable method (or a
// verified wrapper of one) on the same root whose nil result dominates instr.
func findCheckMutableGuard(fn *ssa.Function, instr ssa.Instruction, roots []base) string {
	var wr map[*ssa.Function]map[int]bool
	if fn.Prog != nil && curProg != nil && curProg.SSA == fn.Prog {
		wr = guardWrappers(fn.Prog, curProg.Funcs)
	}
	return guardDominates(fn, instr, roots, wr)
}

// frozenGuard: is block b dominated by the false edge of a test of
// root.frozen (or *root.frozen for lib/proto's shared flag)? For closures the
// guard may be at the closure's creation site.
func frozenGuard(fn *ssa.Function, b *ssa.BasicBlock, roots []base, at ssa.Instruction) string {
	for _, pf := range pathFacts(b) {
		cond, neg := pf.Cond, false
		ld, ok := cond.(*ssa.UnOp)
		if !ok || ld.Op != token.MUL {
			continue
		}
		tr := traceAddr(ld.X)
		if len(tr.fields) == 0 || tr.fields[0].Name() != "frozen" {
			continue
		}
		// frozen is false on this path?
		frozenTrue := pf.Truth != neg
		if frozenTrue {
			continue
		}
		if sameBases(roots, resolveBases(fn, tr.bases)) {
			return "guarded by !" + "frozen" + " of the same object"
		}
	}
	// closure created under the guard (defer func(){ ht.itercount-- }())
	if fn.Parent() != nil {
		sites := closureSites(fn)
		if len(sites) == 0 {
			return ""
		}
		for _, mc := range sites {
			if frozenGuard(mc.Parent(), mc.Block(), roots, mc) == "" {
				return ""
			}
		}
		return "closure created under a !frozen guard of the same object"
	}
	// a private helper (ht.endIteration()) every call of which - plain or deferred - sits under the guard
	if frozenGuardDepth < 2 && fn.Object() != nil && !fn.Object().Exported() && fn.Name() != "Done" {
		var idxs []int
		for _, r := range roots {
			prm, ok := r.v.(*ssa.Parameter)
			if !ok || prm.Parent() != fn {
				return ""
			}
			for i, q := range fn.Params {
				if q == prm {
					idxs = append(idxs, i)
				}
			}
		}
		if len(idxs) == 0 {
			return ""
		}
		n := 0
		okAll := true
		for _, g := range curProg.Funcs {
			eachInstr(g, func(in ssa.Instruction) {
				for _, op := range in.Operands(nil) {
					if f, ok := (*op).(*ssa.Function); ok && f == fn {
						if ci, ok := in.(ssa.CallInstruction); !ok || ci.Common().Value != f {
							okAll = false // address taken
						}
					}
				}
				ci, ok := in.(ssa.CallInstruction)
				if !ok || ci.Common().StaticCallee() != fn {
					return
				}
				n++
				for _, i := range idxs {
					if i >= len(ci.Common().Args) {
						okAll = false
						continue
					}
					arg := resolveBases(g, traceAddr(ci.Common().Args[i]).bases)
					frozenGuardDepth++
					guarded := frozenGuard(g, in.Block(), arg, in) != ""
					frozenGuardDepth--
					if !guarded {
						okAll = false
					}
				}
			})
		}
		if n > 0 && okAll {
			return fmt.Sprintf("private helper %s: all %d call site(s) are under a !frozen guard of the same object", fnName(fn), n)
		}
	}
	return ""
}

var frozenGuardDepth = 0

func init() {
	register("W1", "write census: every store into list/dict/set/hashtable/struct/function/cell/module/program storage is on a fresh object (G0), dominated by a successful checkMutable on the same object (G1), a frozen/itercount store under a !frozen guard (G2), in a verified private helper (G3) or a named exception (G4)", 120, ruleW1)
}

func ruleW1(c *Ctx) {
	res := w1Census(c.P)
	ord := map[string]int{}
	for _, s := range res.sites {
		key := fmt.Sprintf("%s: %s %s", fnName(s.fn), s.kind, s.fkey)
		ord[key]++
		if s.owner == "" {
			continue
		}
		pos := c.P.Pos(s.instr.Pos())
		switch s.class {
		case "G0":
			c.trivial(key, pos, "G0 "+s.reason)
		case "G1", "G2", "G5":
			c.ok(key, pos, s.class+" "+s.reason)
		case "G3":
			c.ok(key, pos, "G3 private helper: "+s.reason)
		case "G4":
			c.except(key, pos, "G4 "+s.reason)
		default:
			c.viol(key, pos, fmt.Sprintf("store to %s (owner %s) is not on a fresh object, not dominated by a successful checkMutable of the same object, not a !frozen-guarded flag store, and not a listed helper/exception; bases: %s", s.fkey, s.owner, describeBases(resolveBases(s.fn, s.tr.bases))))
		}
	}
}

func describeBases(bs []base) string {
	var out []string
	for _, b := range bs {
		s := fmt.Sprintf("%T %s", b.v, b.v.Name())
		if b.throughPtr {
			s += " (via pointer load)"
		}
		out = append(out, s)
	}
	sort.Strings(out)
	return strings.Join(out, ", ")
}

// checkHelperCallers: every call of a G3 helper is at a point where the
// receiver argument is fresh or checkMutable succeeded; helpers must not be
// address-taken.
func checkHelperCallers(c *Ctx) {
	fc := computeReturnsFresh(c.P)
	for _, fn := range c.P.Funcs {
		eachInstr(fn, func(in ssa.Instruction) {
			// address-taken?
			for _, op := range in.Operands(nil) {
				if f, ok := (*op).(*ssa.Function); ok {
					if _, isH := w1Helpers[fnName(f)]; isH {
						if ci, ok := in.(ssa.CallInstruction); !ok || ci.Common().Value != f {
							c.viol("helper "+fnName(f)+" address-taken in "+fnName(fn), c.P.Pos(in.Pos()), "a G3 helper must only be called directly")
						}
					}
				}
			}
			ci, ok := in.(ssa.CallInstruction)
			if !ok {
				return
			}
			cal := ci.Common().StaticCallee()
			if cal == nil {
				return
			}
			hn := fnName(cal)
			if _, isH := w1Helpers[hn]; !isH {
				return
			}
			key := fmt.Sprintf("%s: call %s", fnName(fn), hn)
			pos := c.P.Pos(in.Pos())
			recv := resolveBases(fn, traceAddr(ci.Common().Args[0]).bases)
			fresh := len(recv) > 0
			var nf []base
			for _, b := range recv {
				if b.throughPtr || !isFreshValue(fc, b.v) {
					fresh = false
					nf = append(nf, b)
				}
			}
			if fresh {
				c.trivial(key, pos, "G3 caller: receiver is fresh")
				return
			}
			if g := findCheckMutableGuard(fn, in, nf); g != "" {
				c.ok(key, pos, "G3 caller: "+g)
				return
			}
			// a helper calling from another helper on the same receiver
			if _, ok := w1Helpers[fnName(fn)]; ok && fn.Signature.Recv() != nil && len(nf) == 1 && nf[0].v == fn.Params[0] {
				c.ok(key, pos, "G3 caller: helper-to-helper on the same receiver")
				return
			}
			c.viol(key, pos, "call of private mutating helper "+hn+" on an object that is neither fresh nor checked mutable here")
		})
	}
}
