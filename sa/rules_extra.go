package main

import (
	"fmt"
	"go/token"
	"go/types"
	"strings"

	"golang.org/x/tools/go/ssa"
)

func init() {
	register("V6", "loop-target stack balance: in every compiler function the pushes onto fcomp.loops (append) and the pops (truncation by one) are equal in number, so break/continue after a finished inner loop target the enclosing loop", 1, ruleV6)
	register("D5", "attribute listings are private copies: every AttrNames method returns freshly allocated storage, because callers (dir) sort the result in place; a shared slice would make one execution's dir() change another's error hints", 12, ruleD5)
	register("H5", "key comparison only on hash match: inside the hashtable's insert, lookup, delete and count every call of Equal on a stored key is dominated by the equality test of the stored hash, so whether a comparison (which can fail) happens never depends on which unrelated keys share a bucket", 4, ruleH5)
}

func ruleV6(c *Ctx) {
	// counted over the whole package: the push and the pop may sit in different helpers (loopHead/loopTail)
	push, pop := 0, 0
	var first token.Pos
	for _, fn := range c.P.Funcs {
		if fnPkgPath(fn) != modPath+"/"+compilePkg {
			continue
		}
		eachInstr(fn, func(in ssa.Instruction) {
			st, ok := storeToField(in, "internal/compile.fcomp", "loops")
			if !ok {
				return
			}
			if first == token.NoPos {
				first = st.Pos()
			}
			switch v := st.Val.(type) {
			case *ssa.Call:
				if b, ok := v.Call.Value.(*ssa.Builtin); ok && b.Name() == "append" {
					push++
				}
			case *ssa.Slice:
				if v.High != nil {
					pop++
				}
			}
		})
	}
	key := "package compile: fcomp.loops push/pop"
	switch {
	case push == 0 && pop == 0:
		c.trivial(key, "-", "no function manipulates fcomp.loops (loop targets are handled differently)")
	case push == pop:
		c.ok(key, c.P.Pos(first), fmt.Sprintf("%d push site(s), %d pop site(s)", push, pop))
	default:
		c.viol(key, c.P.Pos(first), fmt.Sprintf("%d push site(s) onto the loop-target stack but %d pop site(s): after a loop whose targets are never popped, break/continue of the enclosing loop jump into the finished inner loop", push, pop))
	}
}

func ruleD5(c *Ctx) {
	fc := computeReturnsFresh(c.P)
	n := 0
	for _, fn := range c.P.Funcs {
		if fn.Name() != "AttrNames" || fn.Signature.Recv() == nil || !isProdPkg(fnPkgPath(fn)) || fn.Parent() != nil {
			continue
		}
		n++
		key := fnName(fn) + ": returns a private slice"
		bad := ""
		eachInstr(fn, func(in ssa.Instruction) {
			r, ok := in.(*ssa.Return)
			if !ok || len(r.Results) != 1 {
				return
			}
			for _, p := range provenance(fc, r.Results[0]) {
				switch p.kind {
				case "fresh":
				case "field":
					// a slice stored in the receiver (e.g. a precomputed list): shared
					bad = "a slice stored in " + qualType(p.tr.owners[0]) + "." + p.tr.fields[0].Name()
				case "other":
					if ld, ok := p.v.(*ssa.UnOp); ok {
						if g, ok := ld.X.(*ssa.Global); ok {
							bad = "the package-level variable " + g.Name()
						}
					}
					if bad == "" {
						bad = fmt.Sprintf("storage of unknown origin (%T)", p.v)
					}
				case "call":
					// results of stdlib helpers that allocate (strings.Fields, maps.Keys+sorted...) are fine; unknown module calls are not
					if call, ok := p.v.(*ssa.Call); ok {
						if cal := call.Call.StaticCallee(); cal != nil && !strings.HasPrefix(fnPkgPath(cal), modPath) {
							continue
						}
					}
					bad = "the result of a call whose freshness is not established"
				default:
					bad = p.kind
				}
			}
		})
		if bad == "" {
			c.ok(key, c.P.Pos(fn.Pos()), "freshly allocated on every call")
		} else {
			c.viol(key, c.P.Pos(fn.Pos()), "AttrNames returns "+bad+": dir() sorts its result in place, so the order later executions (and concurrent threads) observe - e.g. in 'did you mean' hints - depends on whether dir() ran before")
		}
	}
	if n < 12 {
		c.anchorFail("only %d AttrNames methods found", n)
	}
}

func ruleH5(c *Ctx) {
	eq := c.P.Func("starlark", "Equal")
	if eq == nil {
		c.anchorFail("starlark.Equal not found")
		return
	}
	n := 0
	for _, name := range []string{"insert", "lookup", "delete", "count"} {
		fn := c.P.Func("starlark", "hashtable."+name)
		if fn == nil {
			c.anchorFail("(*hashtable).%s not found", name)
			continue
		}
		// include private hashtable helpers called from it
		fns := []*ssa.Function{fn}
		eachInstr(fn, func(in ssa.Instruction) {
			if ci, ok := in.(ssa.CallInstruction); ok {
				if cal := ci.Common().StaticCallee(); cal != nil && cal.Blocks != nil && cal.Signature.Recv() != nil && qualType(cal.Signature.Recv().Type()) == "starlark.hashtable" && !bucketReaders[cal.Name()] && cal.Name() != "checkMutable" {
					fns = append(fns, cal)
				}
			}
		})
		for _, f := range fns {
			eachInstr(f, func(in ssa.Instruction) {
				call, ok := in.(*ssa.Call)
				if !ok || call.Call.StaticCallee() != eq {
					return
				}
				n++
				key := fmt.Sprintf("(*hashtable).%s: Equal on a stored key", name)
				guarded := false
				for _, pc := range pathConds(call.Block()) {
					b, ok := pc.If.Cond.(*ssa.BinOp)
					if !ok {
						continue
					}
					readsHash := false
					for y := range backSlice(b) {
						if ld, ok := y.(*ssa.UnOp); ok {
							if fa, ok := ld.X.(*ssa.FieldAddr); ok {
								if _, fname := ownerField(fa); fname == "hash" {
									readsHash = true
								}
							}
						}
					}
					if !readsHash {
						continue
					}
					if (b.Op == token.EQL && pc.Branch) || (b.Op == token.NEQ && !pc.Branch) {
						guarded = true
					}
				}
				if guarded {
					c.ok(key, c.P.Pos(call.Pos()), "dominated by entry.hash == h")
				} else {
					c.viol(key, c.P.Pos(call.Pos()), "a stored key is compared with Equal without first matching its hash: Equal can fail (e.g. on deeply nested tuples), so whether the operation fails depends on which unrelated keys share the bucket - that is, on the per-process hash seed")
				}
			})
		}
	}
	if n < 4 {
		c.anchorFail("only %d Equal calls found in the hashtable", n)
	}
}

var _ = types.Identical

func init() {
	register("V7", "iterator instructions are balanced in the compiler: every compiler function emits as many ITERPOP as ITERPUSH instructions (the for statement and each comprehension clause pop the iterator they pushed; early exits rely on the VM's deferred drain)", 1, ruleV7)
}

func ruleV7(c *Ctx) {
	oi := opcodes(c)
	if oi == nil {
		return
	}
	push, pop := oi.byName["ITERPUSH"], oi.byName["ITERPOP"]
	np, nq := 0, 0
	var at token.Pos
	for _, fn := range c.P.Funcs {
		if fnPkgPath(fn) != modPath+"/"+compilePkg {
			continue
		}
		eachInstr(fn, func(in ssa.Instruction) {
			call, ok := in.(*ssa.Call)
			if !ok || len(call.Call.Args) < 2 {
				return
			}
			cal := call.Call.StaticCallee()
			if cal == nil || !strings.HasPrefix(cal.Name(), "emit") || fnPkgPath(cal) != modPath+"/"+compilePkg {
				return
			}
			for _, a := range call.Call.Args[1:] {
				ks := []int64{}
				if k, ok := constInt(a); ok {
					ks = append(ks, k)
				}
				for _, v := range variadicElems(a) {
					if k, ok := constInt(v); ok {
						ks = append(ks, k)
					}
				}
				for _, k := range ks {
					if k == push {
						np++
						at = call.Pos()
					}
					if k == pop {
						nq++
						at = call.Pos()
					}
				}
			}
		})
	}
	// counted over the whole package: a refactoring may put the push and the pop into different helpers
	key := "package compile: ITERPUSH/ITERPOP emission sites"
	switch {
	case np == 0 && nq == 0:
		c.anchorFail("no ITERPUSH/ITERPOP emission found in package compile")
	case np == nq:
		c.ok(key, c.P.Pos(at), fmt.Sprintf("%d ITERPUSH site(s), %d ITERPOP site(s)", np, nq))
	default:
		c.viol(key, c.P.Pos(at), fmt.Sprintf("%d ITERPUSH site(s) but %d ITERPOP site(s): a loop that completes normally leaves its iterator on the frame's iterator stack (the collection stays locked until the function returns) or pops one it did not push", np, nq))
	}
}
