package main

import (
	"fmt"
	"go/token"
	"go/types"
	"strings"

	"golang.org/x/tools/go/ssa"
)

func init() {
	register("V6", "loop-target stack balance: in every compiler function the pushes onto fcomp.loops (append) and the pops (truncation by one) are equal in number, so break/continue after a finished inner loop target the enclosing loop", 1, ruleV6)
	register("D5", "attribute listings are private copies: every AttrNames method returns freshly allocated storage, because callers (dir) sort the result in place; a shared slice would make one execution's dir() change another's error hints", 12, ruleD5)
	register("H5", "key comparison only on hash match: inside the hashtable's insert, lookup, delete and count every call of Equal on a stored key is dominated by the equality test of the stored hash, so whether a comparison (which can fail) happens never depends on which unrelated keys share a bucket", 4, ruleH5)
}

func ruleV6(c *Ctx) {
	// counted over the whole package: the push and the pop may sit in different helpers (loopHead/loopTail)
	push, pop := 0, 0
	var first token.Pos
	for _, fn := range c.P.Funcs {
		if fnPkgPath(fn) != modPath+"/"+compilePkg {
			continue
		}
		eachInstr(fn, func(in ssa.Instruction) {
			st, ok := storeToField(in, "internal/compile.fcomp", "loops")
			if !ok {
				return
			}
			if first == token.NoPos {
				first = st.Pos()
			}
			switch v := st.Val.(type) {
			case *ssa.Call:
				if b, ok := v.Call.Value.(*ssa.Builtin); ok && b.Name() == "append" {
					push++
				}
			case *ssa.Slice:
				if v.High != nil {
					pop++
				}
			}
		})
	}
	key := "package compile: fcomp.loops push/pop"
	switch {
	case push == 0 && pop == 0:
		c.trivial(key, "-", "no function manipulates fcomp.loops (loop targets are handled differently)")
	case push == pop:
		c.ok(key, c.P.Pos(first), fmt.Sprintf("%d push site(s), %d pop site(s)", push, pop))
	default:
		c.viol(key, c.P.Pos(first), fmt.Sprintf("%d push site(s) onto the loop-target stack but %d pop site(s): after a loop whose targets are never popped, break/continue of the enclosing loop jump into the finished inner loop", push, pop))
	}
}

func ruleD5(c *Ctx) {
	fc := computeReturnsFresh(c.P)
	n := 0
	for _, fn := range c.P.Funcs {
		if fn.Name() != "AttrNames" || fn.Signature.Recv() == nil || !isProdPkg(fnPkgPath(fn)) || fn.Parent() != nil {
			continue
		}
		n++
		key := fnName(fn) + ": returns a private slice"
		bad := ""
		eachInstr(fn, func(in ssa.Instruction) {
			r, ok := in.(*ssa.Return)
			if !ok || len(r.Results) != 1 {
				return
			}
			for _, p := range provenance(fc, r.Results[0]) {
				switch p.kind {
				case "fresh":
				case "field":
					// a slice stored in the receiver (e.g. a precomputed list): shared
					bad = "a slice stored in " + qualType(p.tr.owners[0]) + "." + p.tr.fields[0].Name()
				case "other":
					if ld, ok := p.v.(*ssa.UnOp); ok {
						if g, ok := ld.X.(*ssa.Global); ok {
							bad = "the package-level variable " + g.Name()
						}
					}
					if bad == "" {
						bad = fmt.Sprintf("storage of unknown origin (%T)", p.v)
					}
				case "call":
					// results of stdlib helpers that allocate (strings.Fields, maps.Keys+sorted...) are fine; unknown module calls are not
					if call, ok := p.v.(*ssa.Call); ok {
						if cal := call.Call.StaticCallee(); cal != nil && !strings.HasPrefix(fnPkgPath(cal), modPath) {
							continue
						}
					}
					bad = "the result of a call whose freshness is not established"
				default:
					bad = p.kind
				}
			}
		})
		if bad == "" {
			c.ok(key, c.P.Pos(fn.Pos()), "freshly allocated on every call")
		} else {
			c.viol(key, c.P.Pos(fn.Pos()), "AttrNames returns "+bad+": dir() sorts its result in place, so the order later executions (and concurrent threads) observe - e.g. in 'did you mean' hints - depends on whether dir() ran before")
		}
	}
	if n < 12 {
		c.anchorFail("only %d AttrNames methods found", n)
	}
}

func ruleH5(c *Ctx) {
	eq := c.P.Func("starlark", "Equal")
	if eq == nil {
		c.anchorFail("starlark.Equal not found")
		return
	}
	n := 0
	for _, name := range []string{"insert", "lookup", "delete", "count"} {
		fn := c.P.Func("starlark", "hashtable."+name)
		if fn == nil {
			c.anchorFail("(*hashtable).%s not found", name)
			continue
		}
		// include private hashtable helpers called from it
		fns := []*ssa.Function{fn}
		eachInstr(fn, func(in ssa.Instruction) {
			if ci, ok := in.(ssa.CallInstruction); ok {
				if cal := ci.Common().StaticCallee(); cal != nil && cal.Blocks != nil && cal.Signature.Recv() != nil && qualType(cal.Signature.Recv().Type()) == "starlark.hashtable" && !bucketReaders[cal.Name()] && cal.Name() != "checkMutable" {
					fns = append(fns, cal)
				}
			}
		})
		for _, f := range fns {
			eachInstr(f, func(in ssa.Instruction) {
				call, ok := in.(*ssa.Call)
				if !ok || call.Call.StaticCallee() != eq {
					return
				}
				n++
				key := fmt.Sprintf("(*hashtable).%s: Equal on a stored key", name)
				guarded := false
				for _, pf := range pathFacts(call.Block()) {
					b, ok := pf.Cond.(*ssa.BinOp)
					if !ok {
						continue
					}
					readsHash := false
					for y := range backSlice(b) {
						if ld, ok := y.(*ssa.UnOp); ok {
							if fa, ok := ld.X.(*ssa.FieldAddr); ok {
								if _, fname := ownerField(fa); fname == "hash" {
									readsHash = true
								}
							}
						}
					}
					if !readsHash {
						continue
					}
					if (b.Op == token.EQL && pf.Truth) || (b.Op == token.NEQ && !pf.Truth) {
						guarded = true
					}
				}
				if guarded {
					c.ok(key, c.P.Pos(call.Pos()), "dominated by entry.hash == h")
				} else {
					c.viol(key, c.P.Pos(call.Pos()), "a stored key is compared with Equal without first matching its hash: Equal can fail (e.g. on deeply nested tuples), so whether the operation fails depends on which unrelated keys share the bucket - that is, on the per-process hash seed")
				}
			})
		}
	}
	if n < 4 {
		c.anchorFail("only %d Equal calls found in the hashtable", n)
	}
}

var _ = types.Identical

func init() {
	register("V7", "iterator instructions are balanced in the compiler: every construct-level compiler function (a node dispatcher, a function it calls, or a recursive one), with its private helpers inlined, emits as many ITERPOP as ITERPUSH instructions (the for statement and each comprehension clause pop the iterator they pushed; early exits rely on the VM's deferred drain)", 1, ruleV7)
}

func ruleV7(c *Ctx) {
	oi := opcodes(c)
	if oi == nil {
		return
	}
	push, pop := oi.byName["ITERPUSH"], oi.byName["ITERPOP"]
	type cnt struct{ push, pop int }
	direct := map[*ssa.Function]*cnt{}
	callees := map[*ssa.Function][]*ssa.Function{}
	calledFromDispatcher := map[*ssa.Function]bool{}
	selfRec := map[*ssa.Function]bool{}
	at := map[*ssa.Function]token.Pos{}
	var cfuncs []*ssa.Function
	for _, fn := range c.P.Funcs {
		if fnPkgPath(fn) != modPath+"/"+compilePkg {
			continue
		}
		cfuncs = append(cfuncs, fn)
		fn := fn
		direct[fn] = &cnt{}
		disp := isNodeDispatcher(fn)
		eachInstr(fn, func(in ssa.Instruction) {
			call, ok := in.(*ssa.Call)
			if !ok {
				return
			}
			cal := call.Call.StaticCallee()
			if cal == nil || fnPkgPath(cal) != modPath+"/"+compilePkg {
				return
			}
			if cal == fn {
				selfRec[fn] = true
			} else {
				callees[fn] = append(callees[fn], cal)
				if disp {
					calledFromDispatcher[cal] = true
				}
			}
			if !strings.HasPrefix(cal.Name(), "emit") || len(call.Call.Args) < 2 {
				return
			}
			for _, a := range call.Call.Args[1:] {
				ks := []int64{}
				if k, ok := constInt(a); ok {
					ks = append(ks, k)
				}
				for _, v := range variadicElems(a) {
					if k, ok := constInt(v); ok {
						ks = append(ks, k)
					}
				}
				for _, k := range ks {
					if k == push {
						direct[fn].push++
						at[fn] = call.Pos()
					}
					if k == pop {
						direct[fn].pop++
						at[fn] = call.Pos()
					}
				}
			}
		})
	}
	// a helper that a dispatcher calls but that emits only one half of a push/pop pair (forHeader:
	// ITERPUSH, the caller emits ITERPOP) is not a construct of its own: it is inlined into its callers
	demoted := map[*ssa.Function]bool{}
	isRoot := func(f *ssa.Function) bool {
		return !demoted[f] && (isNodeDispatcher(f) || calledFromDispatcher[f] || selfRec[f])
	}
	// counts of a construct-level function with its private helpers inlined
	var inl func(f *ssa.Function, onStack map[*ssa.Function]bool) (int, int)
	inl = func(f *ssa.Function, onStack map[*ssa.Function]bool) (int, int) {
		d := direct[f]
		if d == nil || onStack[f] {
			return 0, 0
		}
		onStack[f] = true
		defer delete(onStack, f)
		np, nq := d.push, d.pop
		for _, g := range callees[f] {
			if isRoot(g) {
				continue
			}
			a, b := inl(g, onStack)
			np += a
			nq += b
		}
		return np, nq
	}
	for _, fn := range cfuncs {
		if calledFromDispatcher[fn] && !isNodeDispatcher(fn) && !selfRec[fn] {
			if np, nq := inl(fn, map[*ssa.Function]bool{}); np != nq {
				demoted[fn] = true
			}
		}
	}
	total := 0
	for _, fn := range cfuncs {
		if !isRoot(fn) && !(direct[fn].push+direct[fn].pop > 0 && len(callersInPkg(cfuncs, fn)) == 0) {
			continue
		}
		np, nq := inl(fn, map[*ssa.Function]bool{})
		if np == 0 && nq == 0 {
			continue
		}
		total += np + nq
		key := fnName(fn) + ": ITERPUSH/ITERPOP emissions"
		pos := c.P.Pos(at[fn])
		if at[fn] == token.NoPos {
			pos = c.P.Pos(fn.Pos())
		}
		if np == nq {
			c.ok(key, pos, fmt.Sprintf("%d ITERPUSH, %d ITERPOP (private helpers inlined)", np, nq))
		} else {
			c.viol(key, pos, fmt.Sprintf("%d ITERPUSH emission(s) but %d ITERPOP emission(s) in this construct (private helpers inlined): a loop that completes normally leaves its iterator on the frame's iterator stack (the collection stays locked until the function returns) or pops one it did not push", np, nq))
		}
	}
	// path clause: where one function emits both, no path from the ITERPUSH emission to the function's
	// return avoids the ITERPOP emission (a pop that is conditional, e.g. on a 'caller returns anyway' flag,
	// leaves the iterator - and the lock it holds - in place while the rest of the function still runs)
	emitsOp := func(in ssa.Instruction, op int64) bool {
		call, ok := in.(*ssa.Call)
		if !ok {
			return false
		}
		cal := call.Call.StaticCallee()
		if cal == nil || !strings.HasPrefix(cal.Name(), "emit") || len(call.Call.Args) < 2 {
			return false
		}
		for _, a := range call.Call.Args[1:] {
			if k, ok := constInt(a); ok && k == op {
				return true
			}
			for _, v := range variadicElems(a) {
				if k, ok := constInt(v); ok && k == op {
					return true
				}
			}
		}
		return false
	}
	for _, fn := range cfuncs {
		if direct[fn].push == 0 || direct[fn].pop == 0 {
			continue
		}
		eachInstr(fn, func(in ssa.Instruction) {
			if in.Parent() != fn || !emitsOp(in, push) {
				return
			}
			key := fnName(fn) + ": ITERPOP on every path after ITERPUSH"
			leak := pathAvoiding(in, func(x ssa.Instruction) bool { return emitsOp(x, pop) }, func(x ssa.Instruction) bool { _, ok := x.(*ssa.Return); return ok })
			if leak != nil {
				c.viol(key, c.P.Pos(in.Pos()), "after emitting ITERPUSH this function can return without having emitted the matching ITERPOP: the compiled loop leaves its iterator on the frame's iterator stack, so the collection stays locked for the rest of the function")
			} else {
				c.ok(key, c.P.Pos(in.Pos()), "every path from the ITERPUSH emission to a return emits ITERPOP")
			}
		})
	}
	if total == 0 {
		c.anchorFail("no ITERPUSH/ITERPOP emission found in package compile")
	}
}

func callersInPkg(fns []*ssa.Function, f *ssa.Function) []*ssa.Function {
	var out []*ssa.Function
	for _, g := range fns {
		eachInstr(g, func(in ssa.Instruction) {
			if ci, ok := in.(ssa.CallInstruction); ok && ci.Common().StaticCallee() == f {
				out = append(out, g)
			}
		})
	}
	return out
}

func init() {
	register("S5", "the step limit is the host's: Thread.maxSteps is assigned only a parameter of the storing function (the caller's limit) or the default under a maxSteps == 0 guard, never a value derived from the current step count and never by the interpreter on its own", 1, ruleS5)
	register("A5", "*args is a private copy: in setArgs every tuple stored into the callee's locals is allocated in setArgs; it is never a (sub)slice of the args parameter, which may be a window onto the caller's operand stack", 1, ruleA5)
	register("O8", "nesting counters are balanced: each increment of a resolver nesting counter (loops, ifstmts) is matched by a decrement in the same function, and a counter that a function resets is restored from a saved copy before the function returns", 3, ruleO8)
	register("E7", "no representation equality on ints: values of type starlark.Int are never compared with Go's == / != outside the Int implementation (for big ints that compares pointers, not numbers)", 1, ruleE7)
	register("H6", "presence is decided by the found result: every call of Dict.Get / hashtable.lookup in the built-in library whose value result is used also consumes the found result (a stored None is not an absent key)", 5, ruleH6)
}

func ruleS5(c *Ctx) {
	n := 0
	for _, fn := range c.P.Funcs {
		if !isProdPkg(fnPkgPath(fn)) {
			continue
		}
		eachInstr(fn, func(in ssa.Instruction) {
			st, ok := storeToField(in, "starlark.Thread", "maxSteps")
			if !ok {
				return
			}
			n++
			key := fmt.Sprintf("%s: store Thread.maxSteps", fnName(fn))
			bad := false
			for y := range backSlice(st.Val) {
				if ld, ok := y.(*ssa.UnOp); ok && ld.Op == token.MUL {
					if fa, ok := ld.X.(*ssa.FieldAddr); ok {
						if o, f := ownerField(fa); o == "starlark.Thread" && f == "Steps" {
							bad = true
						}
					}
				}
			}
			// who sets the limit: the host (the value is a parameter of the storing function), or the
			// one-time default for a thread whose limit is still unset (guarded by maxSteps == 0)
			fromParam := false
			for y := range backSlice(st.Val) {
				if _, ok := y.(*ssa.Parameter); ok && y.Type().Underlying() == st.Val.Type().Underlying() {
					fromParam = true
				}
			}
			unsetGuard := false
			for _, pf := range pathFacts(st.Block()) {
				cond, neg := pf.Cond, false
				if bo, ok := cond.(*ssa.BinOp); ok && (bo.Op == token.EQL || bo.Op == token.NEQ) && derivesFromField(bo.X, "starlark.Thread", "maxSteps") {
					if k, isK := constInt(bo.Y); isK && k == 0 {
						isZero := pf.Truth != neg
						if bo.Op == token.NEQ {
							isZero = !isZero
						}
						if isZero {
							unsetGuard = true
						}
					}
				}
			}
			switch {
			case bad:
				c.viol(key, c.P.Pos(st.Pos()), "the limit is computed from the steps already executed: a thread that has run K steps and is given limit N may execute up to K+N-1 steps, i.e. N or more")
			case fromParam:
				c.ok(key, c.P.Pos(st.Pos()), "the caller's limit, independent of Thread.Steps")
			case unsetGuard:
				c.ok(key, c.P.Pos(st.Pos()), "default for a thread whose limit is still unset (maxSteps == 0)")
			default:
				c.viol(key, c.P.Pos(st.Pos()), "the interpreter changes the step limit by itself (not the host's value, not the default of an unset limit): once this store has run the limit the host configured no longer applies")
			}
		})
	}
	if n == 0 {
		c.anchorFail("no store to Thread.maxSteps found")
	}
}

func ruleA5(c *Ctx) {
	fn := c.P.Func("starlark", "setArgs")
	if fn == nil {
		c.anchorFail("starlark.setArgs not found")
		return
	}
	fc := computeReturnsFresh(c.P)
	var localsP, argsP *ssa.Parameter
	for _, p := range fn.Params {
		switch p.Name() {
		case "locals":
			localsP = p
		case "args":
			argsP = p
		}
	}
	if localsP == nil || argsP == nil {
		c.anchorFail("setArgs has no locals/args parameters")
		return
	}
	n := 0
	eachInstr(fn, func(in ssa.Instruction) {
		st, ok := in.(*ssa.Store)
		if !ok {
			return
		}
		ia, ok := st.Addr.(*ssa.IndexAddr)
		if !ok || ia.X != localsP {
			return
		}
		mi, ok := st.Val.(*ssa.MakeInterface)
		if !ok || !isNamed(mi.X.Type(), "starlark", "Tuple") {
			return
		}
		n++
		key := "starlark.setArgs: tuple stored into locals"
		bad := ""
		for _, p := range provenance(fc, mi.X) {
			if p.kind != "fresh" {
				bad = p.kind
				if p.kind == "param" {
					bad = "a slice of parameter " + p.v.Name()
				}
			}
		}
		if bad == "" {
			c.ok(key, c.P.Pos(st.Pos()), "freshly allocated tuple")
		} else {
			c.viol(key, c.P.Pos(st.Pos()), "the *args tuple bound in the callee is "+bad+": the CALL instruction passes a window onto the caller's operand stack, so the tuple's elements change when the caller reuses those slots")
		}
	})
	if n == 0 {
		c.viol("starlark.setArgs: tuple stored into locals", c.P.Pos(fn.Pos()), "setArgs no longer stores a tuple for *args")
	}
}

func ruleO8(c *Ctx) {
	counters := map[string]bool{"loops": true, "ifstmts": true}
	n := 0
	for _, fn := range c.P.Funcs {
		if fnPkgPath(fn) != modPath+"/resolve" {
			continue
		}
		type acc struct{ inc, dec, reset, restore int }
		per := map[string]*acc{}
		var first token.Pos
		eachInstr(fn, func(in ssa.Instruction) {
			st, ok := in.(*ssa.Store)
			if !ok {
				return
			}
			fa, ok := st.Addr.(*ssa.FieldAddr)
			if !ok {
				return
			}
			o, f := ownerField(fa)
			if o != "resolve.resolver" || !counters[f] {
				return
			}
			if first == token.NoPos {
				first = st.Pos()
			}
			a := per[f]
			if a == nil {
				a = &acc{}
				per[f] = a
			}
			switch v := st.Val.(type) {
			case *ssa.BinOp:
				if k, ok := constInt(v.Y); ok && k == 1 && derivesFromField(v.X, "resolve.resolver", f) {
					if v.Op == token.ADD {
						a.inc++
					} else if v.Op == token.SUB {
						a.dec++
					}
					return
				}
				a.restore++
			case *ssa.Const:
				a.reset++
			default:
				// restored from a saved copy (a load of the same field taken earlier)
				if derivesFromField(v, "resolve.resolver", f) {
					a.restore++
				} else {
					a.reset++
				}
			}
		})
		for f, a := range per {
			n++
			key := fmt.Sprintf("%s: counter %s", fnName(fn), f)
			switch {
			case a.inc != a.dec:
				c.viol(key, c.P.Pos(first), fmt.Sprintf("%d increments but %d decrements of r.%s: the nesting depth drifts, so later statements are judged as nested (or not) wrongly", a.inc, a.dec, f))
			case a.reset != a.restore:
				c.viol(key, c.P.Pos(first), fmt.Sprintf("r.%s is reset %d time(s) but restored %d time(s): after this function the enclosing statement's nesting depth is lost, so a statement that must be rejected there (e.g. a load inside a conditional) is accepted", f, a.reset, a.restore))
			default:
				c.ok(key, c.P.Pos(first), fmt.Sprintf("inc/dec %d/%d, reset/restore %d/%d", a.inc, a.dec, a.reset, a.restore))
			}
		}
	}
	if n == 0 {
		c.anchorFail("no resolver nesting counters found")
	}
}

func ruleE7(c *Ctx) {
	n := 0
	for _, fn := range c.P.Funcs {
		if !isProdPkg(fnPkgPath(fn)) || inIntFiles(c.P, fn) {
			continue
		}
		eachInstr(fn, func(in ssa.Instruction) {
			b, ok := in.(*ssa.BinOp)
			if !ok || (b.Op != token.EQL && b.Op != token.NEQ) {
				return
			}
			if qualType(b.X.Type()) != "starlark.Int" || isPtr(b.X.Type()) {
				return
			}
			n++
			c.viol(fmt.Sprintf("%s: Go %s on starlark.Int", fnName(fn), b.Op), c.P.Pos(b.Pos()), "two starlark.Int values are compared with Go's "+b.Op.String()+": ints beyond int32 are held as *big.Int, so this compares pointers; two separately computed equal ints are then unequal (dict lookups, 'in', list.index disagree with ==)")
		})
	}
	c.trivial("Go ==/!= on starlark.Int outside the Int implementation", "-", fmt.Sprintf("%d found", n))
}

func ruleH6(c *Ctx) {
	n := 0
	for _, fn := range c.P.Funcs {
		if fnPkgPath(fn) != modPath+"/starlark" {
			continue
		}
		eachInstr(fn, func(in ssa.Instruction) {
			call, ok := in.(*ssa.Call)
			if !ok {
				return
			}
			cal := call.Call.StaticCallee()
			isGet := false
			if cal != nil && (methodIs(cal, "starlark", "Dict", "Get") || methodIs(cal, "starlark", "hashtable", "lookup")) {
				isGet = true
			}
			if call.Call.IsInvoke() && call.Call.Method.Name() == "Get" && call.Call.Signature().Results().Len() == 3 {
				isGet = true
			}
			if !isGet {
				return
			}
			var vUsed, fUsed bool
			for _, r := range *call.Referrers() {
				ex, ok := r.(*ssa.Extract)
				if !ok {
					// returned whole (`return d.ht.lookup(k)`): found is passed on
					if _, isRet := r.(*ssa.Return); isRet {
						vUsed, fUsed = true, true
					}
					continue
				}
				used := ex.Referrers() != nil && len(*ex.Referrers()) > 0
				switch ex.Index {
				case 0:
					vUsed = vUsed || used
				case 1:
					fUsed = fUsed || used
				}
			}
			if !vUsed {
				return
			}
			n++
			key := fmt.Sprintf("%s: result of %s", fnName(fn), calleeName(call))
			if fUsed {
				c.ok(key, c.P.Pos(call.Pos()), "the found result is consumed")
			} else {
				c.viol(key, c.P.Pos(call.Pos()), "the value returned by the lookup is used but its 'found' result is discarded: a key whose value is None is then treated as absent (e.g. setdefault overwrites it)")
			}
		})
	}
	if n < 5 {
		c.anchorFail("only %d lookups examined", n)
	}
}

// ---------- W8 ----------

func init() {
	register("W8", "no write is lost in a receiver copy: a method with a value receiver never assigns to a field of that receiver (the caller's object is unchanged, so state that sibling pointer-receiver methods rely on - e.g. the argument-binding bit set's large mode - silently stays unset)", 1, ruleW8)
	claim("C08", "W8")
	claim("C05", "W8")
}

func ruleW8(c *Ctx) {
	n := 0
	bad := 0
	for _, fn := range c.P.Funcs {
		if !isProdPkg(fnPkgPath(fn)) || fn.Signature.Recv() == nil || fn.Blocks == nil || len(fn.Params) == 0 {
			continue
		}
		rt := fn.Signature.Recv().Type()
		if _, isPtr := rt.(*types.Pointer); isPtr {
			continue
		}
		if _, isStruct := rt.Underlying().(*types.Struct); !isStruct {
			continue
		}
		n++
		recv := fn.Params[0]
		fn := fn
		// a value receiver that is assigned to is spilled: stores go to FieldAddr(alloc holding the receiver)
		eachInstr(fn, func(in ssa.Instruction) {
			st, ok := in.(*ssa.Store)
			if !ok {
				return
			}
			fa, ok := st.Addr.(*ssa.FieldAddr)
			if !ok {
				return
			}
			al, ok := fa.X.(*ssa.Alloc)
			if !ok || al.Referrers() == nil {
				return
			}
			holdsRecv := false
			for _, r := range *al.Referrers() {
				if s2, ok := r.(*ssa.Store); ok && s2.Addr == al && s2.Val == ssa.Value(recv) {
					holdsRecv = true
				}
			}
			if !holdsRecv {
				return
			}
			// the copy is returned or passed on: then the write is not lost (builder style)
			escapes := false
			for _, r := range *al.Referrers() {
				switch x := r.(type) {
				case *ssa.UnOp:
					if x.Referrers() != nil {
						for _, r2 := range *x.Referrers() {
							switch r2.(type) {
							case *ssa.Return, *ssa.MakeInterface, ssa.CallInstruction, *ssa.Store:
								escapes = true
							}
						}
					}
				case ssa.CallInstruction, *ssa.MakeClosure:
					escapes = true
				}
			}
			if escapes {
				return
			}
			bad++
			_, f := ownerField(fa)
			c.viol(fmt.Sprintf("%s: assigns receiver field %s", fnName(fn), f), c.P.Pos(st.Pos()), "the method has a value receiver, so this assignment changes a copy that is discarded when the method returns; callers that rely on the update (sibling methods with pointer receivers do) see the old state")
		})
	}
	if n == 0 {
		c.anchorFail("no value-receiver methods on struct types found")
		return
	}
	if bad == 0 {
		c.ok("value-receiver methods: receiver field stores", "-", fmt.Sprintf("%d value-receiver methods on struct types examined, none assigns to a field of its own copy without returning it", n))
	}
}
