package main

import (
	"fmt"
	"go/token"
	"go/types"
	"strings"

	"golang.org/x/tools/go/ssa"
)

func init() {
	register("P1", "iterator pairing: every value of type starlark.Iterator acquired by a call is released on every CFG path to a function exit (defer Done, plain Done with only Next/append in between, return to the caller, or storage in a slice drained by a deferred closure); an iterator captured by a returned closure is a violation", 30, ruleP1)
	register("M2", "counter symmetry: for every iterable with an itercount, Iterate increments it under !frozen and the matching iterator's Done decrements the same counter under !frozen (push iterators decrement in a deferred closure created under the same guard)", 5, ruleM2)
	register("P2", "frame and iterator-stack cleanup: Call pushes the frame and, before invoking the callable, defers a closure that pops it; CallInternal defers a closure that calls Done on every iterator left on iterstack, installed before the interpreter loop; ITERPOP calls Done on the popped iterator", 3, ruleP2)
}

func isIteratorType(t types.Type) bool { return isNamed(t, "starlark", "Iterator") && !isPtr(t) }

func isPtr(t types.Type) bool { _, ok := t.(*types.Pointer); return ok }

// aliasSet computes the SSA values that denote the acquired iterator.
func aliasSet(v ssa.Value) map[ssa.Value]bool {
	A := map[ssa.Value]bool{v: true}
	work := []ssa.Value{v}
	add := func(x ssa.Value) {
		if !A[x] {
			A[x] = true
			work = append(work, x)
		}
	}
	for len(work) > 0 {
		a := work[len(work)-1]
		work = work[:len(work)-1]
		refs := a.Referrers()
		if refs == nil {
			continue
		}
		for _, r := range *refs {
			switch x := r.(type) {
			case *ssa.Phi:
				add(x)
			case *ssa.MakeInterface:
				add(x)
			case *ssa.ChangeInterface:
				add(x)
			case *ssa.ChangeType:
				add(x)
			case *ssa.TypeAssert:
				if x.X == a {
					add(x)
				}
			case *ssa.Extract:
				if _, ok := a.(*ssa.TypeAssert); ok && x.Index == 0 {
					add(x)
				}
			case *ssa.Store:
				if x.Val == a {
					if al, ok := x.Addr.(*ssa.Alloc); ok && isVarCell(al) {
						// local variable cell: loads are aliases; the cell itself may be captured
						add(al)
					}
				}
			case *ssa.UnOp:
				if x.Op == token.MUL && x.X == a {
					if _, ok := a.(*ssa.Alloc); ok {
						add(x)
					}
				}
			}
		}
	}
	return A
}

type p1Event struct {
	kind string // defer | done | return | transfer | closure-defer
}

// closureCallsDone: does the closure body call Done on free variable #idx
// (possibly via load of the captured cell)?
func closureCallsDoneOn(fn *ssa.Function, idx int) bool {
	if idx >= len(fn.FreeVars) {
		return false
	}
	fv := fn.FreeVars[idx]
	A := aliasSet(fv)
	// loads of the captured cell
	if refs := fv.Referrers(); refs != nil {
		for _, r := range *refs {
			if u, ok := r.(*ssa.UnOp); ok && u.Op == token.MUL {
				for k := range aliasSet(u) {
					A[k] = true
				}
			}
		}
	}
	found := false
	eachInstr(fn, func(in ssa.Instruction) {
		if ci, ok := in.(ssa.CallInstruction); ok {
			cc := ci.Common()
			if cc.IsInvoke() && cc.Method.Name() == "Done" && A[cc.Value] {
				found = true
			}
		}
	})
	return found
}

// hasDrainDefer: the function defers a closure that calls Done on iterators
// taken from a slice (the iterstack / zip idiom).
func hasDrainDefer(fn *ssa.Function) bool {
	found := false
	eachInstr(fn, func(in ssa.Instruction) {
		d, ok := in.(*ssa.Defer)
		if !ok {
			return
		}
		cl := deferredBody(d)
		if cl == nil {
			return
		}
		eachInstr(cl, func(in2 ssa.Instruction) {
			if ci, ok := in2.(ssa.CallInstruction); ok {
				cc := ci.Common()
				if cc.IsInvoke() && cc.Method.Name() == "Done" && isIteratorType(cc.Value.Type()) {
					// receiver comes from an element of a slice
					tr := traceAddr(cc.Value)
					_ = tr
					if u, ok := cc.Value.(*ssa.UnOp); ok {
						if _, ok := u.X.(*ssa.IndexAddr); ok {
							found = true
						}
					}
					if _, ok := cc.Value.(*ssa.Extract); ok {
						found = true // range over slice value
					}
				}
			}
		})
	})
	return found
}

// callsAllowedWhileHeld: calls that may run between an acquisition and a
// non-deferred Done without risking a leak on panic.
func callAllowedWhileHeld(ci ssa.CallInstruction, A map[ssa.Value]bool) bool {
	cc := ci.Common()
	if cc.IsInvoke() {
		return A[cc.Value] && (cc.Method.Name() == "Next" || cc.Method.Name() == "Done")
	}
	if _, ok := cc.Value.(*ssa.Builtin); ok {
		return true
	}
	if f := cc.StaticCallee(); f != nil {
		switch f.String() {
		case "fmt.Errorf", "errors.New", "fmt.Sprintf":
			return true
		}
	}
	return false
}

func ruleP1(c *Ctx) {
	for _, fn := range c.P.Funcs {
		if !isProdPkg(fnPkgPath(fn)) {
			continue
		}
		ord := 0
		eachInstr(fn, func(in ssa.Instruction) {
			call, ok := in.(*ssa.Call)
			if !ok || !isIteratorType(call.Type()) {
				return
			}
			ord++
			key := fmt.Sprintf("%s: acquire via %s", fnName(fn), calleeName(call))
			pos := c.P.Pos(call.Pos())
			p1Check(c, fn, call, key, pos)
		})
	}
}

func p1Check(c *Ctx, fn *ssa.Function, acq *ssa.Call, key, pos string) {
	A := aliasSet(acq)
	release := map[ssa.Instruction]string{}
	var escapes []string
	transferOK := hasDrainDefer(fn)
	for a := range A {
		refs := a.Referrers()
		if refs == nil {
			continue
		}
		for _, r := range *refs {
			switch x := r.(type) {
			case *ssa.Defer:
				cc := x.Common()
				if cc.IsInvoke() && cc.Method.Name() == "Done" && cc.Value == a {
					release[x] = "defer"
				} else if mc, ok := cc.Value.(*ssa.MakeClosure); ok {
					_ = mc
				}
			case *ssa.Call:
				cc := x.Common()
				if cc.IsInvoke() && cc.Method.Name() == "Done" && cc.Value == a {
					release[x] = "done"
				}
			case *ssa.Return:
				release[x] = "return"
			case *ssa.Store:
				if x.Val != a {
					continue
				}
				if al, ok := x.Addr.(*ssa.Alloc); ok && isVarCell(al) {
					continue // local variable
				}
				// stored into a slice element / array / field
				if transferOK {
					release[x] = "transfer"
				} else {
					escapes = append(escapes, "stored into "+describeAddr(x.Addr)+" at "+c.P.Pos(x.Pos())+" in a function without a deferred drain")
				}
			case *ssa.MakeClosure:
				cl := x.Fn.(*ssa.Function)
				idx := -1
				for i, b := range x.Bindings {
					if b == a {
						idx = i
					}
				}
				// is the closure deferred here, and does it call Done?
				deferred := false
				if crefs := x.Referrers(); crefs != nil {
					for _, cr := range *crefs {
						if d, ok := cr.(*ssa.Defer); ok && d.Call.Value == x {
							if closureCallsDoneOn(cl, idx) {
								release[d] = "closure-defer"
								deferred = true
							}
						}
					}
				}
				if !deferred {
					// used by a closure that is not deferred here: does it escape by return?
					ret := false
					if crefs := x.Referrers(); crefs != nil {
						for _, cr := range *crefs {
							switch cr.(type) {
							case *ssa.Return, *ssa.MakeInterface, *ssa.ChangeType, *ssa.Store:
								ret = true
							}
						}
					}
					if ret {
						escapes = append(escapes, fmt.Sprintf("captured by closure %s which escapes the function: the closure may run zero times (lock never released) or several times (counter underflow); acquire inside the closure instead", fnName(cl)))
					}
				}
			}
		}
	}
	if len(escapes) > 0 {
		c.viol(key, pos, strings.Join(escapes, "; "))
		return
	}
	// forward path search for an exit without release
	type state struct {
		b *ssa.BasicBlock
		i int
	}
	start := 0
	for i, in := range acq.Block().Instrs {
		if in == acq {
			start = i + 1
		}
	}
	seen := map[*ssa.BasicBlock]bool{}
	var leak ssa.Instruction
	var risky ssa.Instruction
	var double ssa.Instruction
	kinds := map[string]int{}
	// after a transfer (the iterator was put on a stack that a deferred closure drains) the
	// stack owns it: an explicit Done on it before it is taken off the stack again releases it twice
	seenT := map[*ssa.BasicBlock]bool{}
	var visitT func(b *ssa.BasicBlock, i int)
	visitT = func(b *ssa.BasicBlock, i int) {
		for ; i < len(b.Instrs); i++ {
			in := b.Instrs[i]
			if k, ok := release[in]; ok && k == "done" {
				if double == nil {
					double = in
				}
				return
			}
			switch x := in.(type) {
			case *ssa.Return, *ssa.Panic:
				return
			case *ssa.Store:
				if sl, ok := x.Val.(*ssa.Slice); ok && sl.High != nil {
					if st, ok := sl.Type().Underlying().(*types.Slice); ok && isIteratorType(st.Elem()) {
						return // popped: ownership is decided by the code that pops
					}
				}
			}
		}
		for _, s := range b.Succs {
			if !seenT[s] {
				seenT[s] = true
				visitT(s, 0)
			}
		}
	}
	var visit func(b *ssa.BasicBlock, i int)
	visit = func(b *ssa.BasicBlock, i int) {
		for ; i < len(b.Instrs); i++ {
			in := b.Instrs[i]
			if k, ok := release[in]; ok {
				kinds[k]++
				if k == "transfer" {
					visitT(b, i+1)
				}
				return
			}
			switch x := in.(type) {
			case *ssa.Return:
				if leak == nil {
					leak = in
				}
				return
			case *ssa.Panic:
				if leak == nil {
					leak = in
				}
				return
			case ssa.CallInstruction:
				if _, isDefer := in.(*ssa.Defer); !isDefer && in != ssa.Instruction(acq) && !callAllowedWhileHeld(x, A) && risky == nil {
					risky = in
				}
			case *ssa.If:
				// nil test on the iterator: the nil edge carries no obligation
				if v, neq, ok := nilTest(x.Cond); ok && A[v] {
					nilSucc := b.Succs[0]
					other := b.Succs[1]
					if neq {
						nilSucc, other = other, nilSucc
					}
					_ = nilSucc
					if !seen[other] {
						seen[other] = true
						visit(other, 0)
					}
					return
				}
			}
		}
		for _, s := range b.Succs {
			if !seen[s] {
				seen[s] = true
				visit(s, 0)
			}
		}
	}
	visit(acq.Block(), start)
	if leak != nil {
		what := "return"
		if _, ok := leak.(*ssa.Panic); ok {
			what = "panic"
		}
		c.viol(key, pos, fmt.Sprintf("iterator acquired here reaches the %s at %s on a path with no Done (neither deferred nor explicit): the collection stays locked against mutation forever", what, c.P.Pos(leakPos(leak))))
		return
	}
	if double != nil {
		c.viol(key, pos, fmt.Sprintf("iterator is handed to a stack that a deferred closure drains, and is also released explicitly at %s while still on that stack: Done runs twice, which underflows the collection's iteration counter (locked forever) or unlocks an enclosing loop's collection", c.P.Pos(double.Pos())))
		return
	}
	if risky != nil && kinds["defer"] == 0 && kinds["closure-defer"] == 0 && (kinds["done"] > 0) {
		c.viol(key, pos, fmt.Sprintf("iterator is released by a plain (non-deferred) Done but %s is called at %s while it is held; a panic there leaks the lock", calleeName(risky.(ssa.CallInstruction)), c.P.Pos(risky.Pos())))
		return
	}
	var ks []string
	for k, n := range kinds {
		ks = append(ks, fmt.Sprintf("%s x%d", k, n))
	}
	if len(ks) == 0 {
		// no exit reachable and no release: e.g. infinite loop; treat as violation
		c.viol(key, pos, "no release found for this iterator")
		return
	}
	c.ok(key, pos, "released on every path: "+strings.Join(sortedStrings(ks), ", "))
}

func leakPos(in ssa.Instruction) token.Pos {
	if in.Pos().IsValid() {
		return in.Pos()
	}
	// returns synthesised by the builder have no position: use the last
	// positioned instruction of the block
	b := in.Block()
	for i := len(b.Instrs) - 1; i >= 0; i-- {
		if b.Instrs[i].Pos().IsValid() {
			return b.Instrs[i].Pos()
		}
	}
	return in.Parent().Pos()
}

func describeAddr(v ssa.Value) string {
	tr := traceAddr(v)
	if len(tr.fields) > 0 {
		return "field " + tr.fields[0].Name()
	}
	return fmt.Sprintf("%T", v)
}

func sortedStrings(s []string) []string {
	out := append([]string(nil), s...)
	for i := range out {
		for j := i + 1; j < len(out); j++ {
			if out[j] < out[i] {
				out[i], out[j] = out[j], out[i]
			}
		}
	}
	return out
}

// ---------- M2 ----------

func ruleM2(c *Ctx) {
	// find all stores to a field named itercount
	type site struct {
		fn    *ssa.Function
		st    *ssa.Store
		delta int // +1 / -1
		owner string
		guard bool
	}
	var sites []site
	for _, fn := range c.P.Funcs {
		if !isProdPkg(fnPkgPath(fn)) {
			continue
		}
		eachInstr(fn, func(in ssa.Instruction) {
			st, ok := in.(*ssa.Store)
			if !ok {
				return
			}
			fa, ok := st.Addr.(*ssa.FieldAddr)
			if !ok {
				return
			}
			tr := traceAddr(st.Addr)
			if tr.fields[0].Name() != "itercount" {
				return
			}
			delta := 0
			if b, ok := st.Val.(*ssa.BinOp); ok {
				if k, isK := constInt(b.Y); isK && k == 1 {
					if b.Op == token.ADD {
						delta = 1
					} else if b.Op == token.SUB {
						delta = -1
					}
				}
			}
			roots := resolveBases(fn, tr.bases)
			g := frozenGuard(fn, st.Block(), roots, st) != ""
			sites = append(sites, site{fn, st, delta, qualType(deref(fa.X.Type())), g})
		})
	}
	if len(sites) == 0 {
		c.anchorFail("no itercount stores found")
		return
	}
	inc := map[string]int{}
	dec := map[string]int{}
	for _, s := range sites {
		key := fmt.Sprintf("%s: itercount%+d on %s", fnName(s.fn), s.delta, s.owner)
		pos := c.P.Pos(s.st.Pos())
		switch {
		case s.delta == 0:
			c.viol(key, pos, "itercount is assigned something other than itercount+1 / itercount-1")
		case !s.guard:
			c.viol(key, pos, "itercount is changed without a dominating !frozen test of the same object (a frozen, shared value would be written)")
		default:
			// a store inside a private helper stands for each of the helper's call sites
			weight := 1
			if s.fn.Parent() == nil && s.fn.Name() != "Done" && s.fn.Object() != nil && !s.fn.Object().Exported() {
				if k := len(callersInPkg(c.P.Funcs, s.fn)); k > 0 && !strings.HasPrefix(strings.ToLower(s.fn.Name()), "iterate") {
					if _, isIterRes := iterResult(s.fn); !isIterRes {
						weight = k
					}
				}
			}
			if s.delta > 0 {
				inc[s.owner] += weight
			} else {
				dec[s.owner] += weight
			}
			c.ok(key, pos, "guarded by !frozen")
		}
	}
	for o := range inc {
		key := "balance " + o
		if dec[o] == 0 {
			c.viol(key, "-", "itercount of "+o+" is incremented but never decremented")
		} else if inc[o] != dec[o] {
			c.viol(key, "-", fmt.Sprintf("%d increment site(s) but %d decrement site(s) for itercount of %s: an Iterate/Done (or push-iterator enter/exit) pair is unbalanced", inc[o], dec[o], o))
		} else {
			c.ok(key, "-", fmt.Sprintf("%d increment and %d decrement sites", inc[o], dec[o]))
		}
	}
	for o := range dec {
		if inc[o] == 0 {
			c.viol("balance "+o, "-", "itercount of "+o+" is decremented but never incremented")
		}
	}
	// increment sites must be in a function that returns/creates the iterator (Iterate/iterate/push iterator); decrements in Done or a deferred closure
	for _, s := range sites {
		if s.delta < 0 {
			top := s.fn
			if top.Name() != "Done" && top.Parent() == nil && !releaseHelper(c.P, top, 0) {
				c.viol(fmt.Sprintf("%s: placement of itercount-1", fnName(s.fn)), c.P.Pos(s.st.Pos()), "decrement outside a Done method or deferred closure")
			}
			if top.Parent() != nil {
				// closure must be deferred
				deferred := false
				for _, mc := range closureSites(top) {
					if refs := mc.Referrers(); refs != nil {
						for _, r := range *refs {
							if _, ok := r.(*ssa.Defer); ok {
								deferred = true
							}
						}
					}
				}
				if !deferred {
					c.viol(fmt.Sprintf("%s: placement of itercount-1", fnName(s.fn)), c.P.Pos(s.st.Pos()), "decrementing closure is not deferred: a panic in the loop body leaks the lock")
				}
			}
		}
	}
}

// ---------- P2 ----------

func ruleP2(c *Ctx) {
	call := c.P.Func("starlark", "Call")
	ci := c.P.Func("starlark", "Function.CallInternal")
	if call == nil || ci == nil {
		c.anchorFail("starlark.Call or (*Function).CallInternal not found")
		return
	}
	// (a) Call: push on thread.stack, then a defer whose body truncates thread.stack, before the invoke of CallInternal.
	// The push and the pop may each live in a private helper (pushFrame/popFrame).
	isPush := func(in ssa.Instruction) bool {
		x, ok := in.(*ssa.Store)
		if !ok {
			return false
		}
		tr := traceAddr(x.Addr)
		if _, ok := x.Addr.(*ssa.FieldAddr); ok && len(tr.fields) > 0 && tr.fields[0].Name() == "stack" && qualType(tr.owners[0]) == "starlark.Thread" {
			if cl, ok := x.Val.(*ssa.Call); ok {
				if b, ok := cl.Call.Value.(*ssa.Builtin); ok && b.Name() == "append" {
					return true
				}
			}
		}
		return false
	}
	isPop := func(in2 ssa.Instruction) bool {
		st, ok := in2.(*ssa.Store)
		if !ok {
			return false
		}
		tr := traceAddr(st.Addr)
		if _, isFA := st.Addr.(*ssa.FieldAddr); isFA && len(tr.fields) > 0 && tr.fields[0].Name() == "stack" {
			if sl, ok := st.Val.(*ssa.Slice); ok && sl.High != nil {
				if bo, ok := sl.High.(*ssa.BinOp); ok && bo.Op == token.SUB {
					if k, isK := constInt(bo.Y); isK && k == 1 {
						return true
					}
				}
			}
		}
		return false
	}
	push := findInCallees(call, 1, isPush)
	var popDefer *ssa.Defer
	var invoke ssa.Instruction
	eachInstr(call, func(in ssa.Instruction) {
		switch x := in.(type) {
		case *ssa.Defer:
			if body := deferredBody(x); body != nil && findInCallees(body, 1, isPop) != nil {
				popDefer = x
			}
		case *ssa.Call:
			if x.Call.IsInvoke() && x.Call.Method.Name() == "CallInternal" {
				invoke = x
			}
		}
	})
	key := "starlark.Call: frame push/pop"
	switch {
	case push == nil:
		c.viol(key, c.P.Pos(call.Pos()), "no push of the new frame onto thread.stack found")
	case popDefer == nil:
		c.viol(key, c.P.Pos(push.Pos()), "no deferred closure truncating thread.stack by one: a panic or error in the callee leaves the frame on the stack")
	case invoke == nil:
		c.viol(key, c.P.Pos(call.Pos()), "no invocation of Callable.CallInternal found")
	case !instrDominates(popDefer, invoke):
		c.viol(key, c.P.Pos(popDefer.Pos()), "the deferred pop is not installed on every path before the callable is invoked")
	case !instrDominates(push, popDefer):
		c.viol(key, c.P.Pos(popDefer.Pos()), "the deferred pop is installed before the push")
	default:
		c.ok(key, c.P.Pos(push.Pos()), "push, then defer(pop), then CallInternal; the defer dominates the invocation")
	}
	// (b) CallInternal: drain defer before the loop's fetch
	key = "(*starlark.Function).CallInternal: iterstack drain"
	var drain *ssa.Defer
	eachInstr(ci, func(in ssa.Instruction) {
		d, ok := in.(*ssa.Defer)
		if !ok {
			return
		}
		if cl := deferredBody(d); cl != nil {
			if findInCallees(cl, 1, func(in2 ssa.Instruction) bool {
				cc, ok := in2.(ssa.CallInstruction)
				return ok && cc.Common().IsInvoke() && cc.Common().Method.Name() == "Done"
			}) != nil {
				drain = d
			}
		}
	})
	fetch := findFetch(ci)
	// the drain must be unconditional: inside the deferred body the Done call may be
	// guarded only by the loop's own bound test, not by the outcome of the call
	condDrain := ""
	if drain != nil {
		if body := deferredBody(drain); body != nil {
			eachInstr(body, func(in2 ssa.Instruction) {
				cc, ok := in2.(ssa.CallInstruction)
				if !ok || !cc.Common().IsInvoke() || cc.Common().Method.Name() != "Done" {
					return
				}
				for _, pf := range pathFacts(in2.Block()) {
					loopBound := false
					if b, ok := pf.Cond.(*ssa.BinOp); ok && (b.Op == token.LSS || b.Op == token.GTR || b.Op == token.LEQ || b.Op == token.GEQ) {
						for y := range backSlice(b) {
							if call, ok := y.(*ssa.Call); ok {
								if bi, ok := call.Call.Value.(*ssa.Builtin); ok && bi.Name() == "len" {
									loopBound = true
								}
							}
						}
					}
					if !loopBound {
						condDrain = c.P.Pos(pf.Cond.Pos())
					}
				}
			})
		}
	}
	switch {
	case drain != nil && condDrain != "":
		c.viol(key, c.P.Pos(drain.Pos()), "the deferred drain of the iterator stack is conditional (test at "+condDrain+"): on the excluded exits (e.g. a normal return from inside a for loop) the iterated collections stay locked")
	case drain == nil:
		c.viol(key, c.P.Pos(ci.Pos()), "CallInternal has no deferred closure calling Done on the iterators left on iterstack: return/error/panic inside a for loop leaks the locks")
	case fetch == nil:
		c.anchorFail("cannot locate the instruction fetch (code[pc]) in CallInternal")
	case !instrDominates(drain, fetch):
		c.viol(key, c.P.Pos(drain.Pos()), "the iterator-drain defer does not dominate the interpreter loop")
	default:
		c.ok(key, c.P.Pos(drain.Pos()), "deferred drain dominates the instruction fetch")
	}
	// (c) ITERPUSH arm pushes onto iterstack, ITERPOP arm calls Done on the popped one: both an append to iterstack and a Done on an element loaded from it exist in CallInternal itself
	pushes, pops := 0, 0
	eachInstr(ci, func(in ssa.Instruction) {
		if cc, ok := in.(*ssa.Call); ok && cc.Call.IsInvoke() && cc.Call.Method.Name() == "Done" {
			if u, ok := cc.Call.Value.(*ssa.UnOp); ok {
				if _, ok := u.X.(*ssa.IndexAddr); ok {
					pops++
				}
			}
		}
	})
	for _, fnc := range []*ssa.Function{ci} {
		eachInstr(fnc, func(in ssa.Instruction) {
			if cc, ok := in.(*ssa.Call); ok {
				if b, ok := cc.Call.Value.(*ssa.Builtin); ok && b.Name() == "append" && len(cc.Call.Args) > 0 {
					if sl, ok := cc.Call.Args[0].Type().Underlying().(*types.Slice); ok && isIteratorType(sl.Elem()) {
						pushes++
					}
				}
			}
		})
	}
	key = "(*starlark.Function).CallInternal: ITERPUSH/ITERPOP"
	if pushes >= 1 && pops >= 1 {
		c.ok(key, c.P.Pos(ci.Pos()), fmt.Sprintf("%d push site(s) onto the iterator stack, %d pop site(s) calling Done on the popped element", pushes, pops))
	} else {
		c.viol(key, c.P.Pos(ci.Pos()), fmt.Sprintf("iterator stack discipline broken: %d push site(s), %d pop-with-Done site(s)", pushes, pops))
	}
}

// findFetch locates the load of code[pc] (element of a []byte named code)
// inside the interpreter loop: the first IndexAddr on a []byte in a loop.
func findFetch(fn *ssa.Function) ssa.Instruction {
	var out ssa.Instruction
	eachInstr(fn, func(in ssa.Instruction) {
		if out != nil {
			return
		}
		ia, ok := in.(*ssa.IndexAddr)
		if !ok {
			return
		}
		sl, ok := ia.X.Type().Underlying().(*types.Slice)
		if !ok {
			return
		}
		if b, ok := sl.Elem().Underlying().(*types.Basic); ok && b.Kind() == types.Uint8 {
			out = in
		}
	})
	return out
}

// releaseHelper: fn is a private helper whose every call site is inside a Done
// method, a deferred call/closure, or another such helper.
func releaseHelper(p *Prog, fn *ssa.Function, depth int) bool {
	if depth > 3 || fn.Object() == nil || fn.Object().Exported() {
		return false
	}
	n := 0
	ok := true
	for _, g := range p.Funcs {
		eachInstr(g, func(in ssa.Instruction) {
			ci, isCall := in.(ssa.CallInstruction)
			if !isCall || ci.Common().StaticCallee() != fn {
				return
			}
			n++
			if _, isDefer := in.(*ssa.Defer); isDefer {
				return
			}
			top := g
			if top.Name() == "Done" {
				return
			}
			if top.Parent() != nil {
				// inside a closure: must be a deferred closure
				for _, mc := range closureSites(top) {
					if refs := mc.Referrers(); refs != nil {
						for _, r := range *refs {
							if _, isD := r.(*ssa.Defer); isD {
								return
							}
						}
					}
				}
			}
			if releaseHelper(p, outermost(g), depth+1) {
				return
			}
			ok = false
		})
	}
	return ok && n > 0
}

// ---------- M3 ----------

func init() {
	register("M3", "callbacks run under the iteration lock: a function that walks a mutable collection's storage (hashtable order list, List.elems) and calls a function value it was given (a push iterator's yield, a visitor) increments the collection's itercount first, so the callee cannot mutate the collection under the walk", 2, ruleM3)
	claim("C06", "M3")
}

func ruleM3(c *Ctx) {
	n := 0
	for _, fn := range c.P.Funcs {
		if !isProdPkg(fnPkgPath(fn)) || fn.Blocks == nil {
			continue
		}
		// (1) a call of a function value that is a parameter or a captured variable
		var cb ssa.Instruction
		eachInstr(fn, func(in ssa.Instruction) {
			ci, ok := in.(ssa.CallInstruction)
			if !ok || ci.Common().IsInvoke() || ci.Common().StaticCallee() != nil {
				return
			}
			if _, isBuiltin := ci.Common().Value.(*ssa.Builtin); isBuiltin {
				return
			}
			v := ci.Common().Value
			if u, ok := v.(*ssa.UnOp); ok {
				v = u.X
			}
			switch v.(type) {
			case *ssa.Parameter, *ssa.FreeVar:
				if cb == nil {
					cb = in
				}
			}
		})
		if cb == nil {
			continue
		}
		// (2) walks guarded storage: loads of hashtable.head / entry.next, or List.elems
		walked := ""
		eachInstr(fn, func(in ssa.Instruction) {
			u, ok := in.(*ssa.UnOp)
			if !ok || u.Op != token.MUL {
				return
			}
			fa, ok := u.X.(*ssa.FieldAddr)
			if !ok {
				return
			}
			o, f := ownerField(fa)
			switch {
			case o == "starlark.hashtable" && f == "head", o == "starlark.entry" && f == "next":
				walked = "starlark.hashtable"
			case o == "starlark.List" && f == "elems":
				walked = "starlark.List"
			}
		})
		if walked == "" {
			continue
		}
		n++
		key := fnName(fn) + ": callback while walking " + walked
		pos := c.P.Pos(cb.Pos())
		// (3) itercount of that collection type is incremented in this function
		locked := false
		eachInstr(fn, func(in ssa.Instruction) {
			st, ok := in.(*ssa.Store)
			if !ok {
				return
			}
			if fa, ok := st.Addr.(*ssa.FieldAddr); ok {
				if o, f := ownerField(fa); o == walked && f == "itercount" {
					if b, ok := st.Val.(*ssa.BinOp); ok && b.Op == token.ADD {
						if instrDominates(st, cb) {
							locked = true
						}
						// `if !x.frozen { x.itercount++; defer ... }` before the walk: a frozen collection needs no lock
						for _, pc := range pathConds(st.Block()) {
							cond, _ := stripNot(pc.If.Cond)
							if ld, ok := cond.(*ssa.UnOp); ok {
								if ffa, ok := ld.X.(*ssa.FieldAddr); ok {
									if o2, f2 := ownerField(ffa); o2 == walked && f2 == "frozen" && instrDominates(pc.If, cb) {
										locked = true
									}
								}
							}
						}
					}
				}
			}
		})
		if !locked && m3Internal(c.P, fn) {
			c.ok(key, pos, "a package-internal walker: unexported, never used as a value, and every function literal handed to it is straight-line package code that calls no function value of its own")
			continue
		}
		if locked {
			c.ok(key, pos, "itercount is incremented before the first callback")
		} else {
			c.viol(key, pos, "the function calls back into caller-supplied code for each element without holding the collection's iteration lock: the callback can insert into, delete from or clear the collection that is being walked, and the mutation succeeds")
		}
	}
	if n < 2 {
		c.anchorFail("only %d callback-driven walks found", n)
	}
}

// iterResult: does fn return an Iterator (an Iterate-like function, which is itself the acquisition)?
func iterResult(fn *ssa.Function) (types.Type, bool) {
	res := fn.Signature.Results()
	for i := 0; i < res.Len(); i++ {
		if _, n := namedOf(res.At(i).Type()); n == "Iterator" || strings.HasSuffix(n, "Iterator") {
			return res.At(i).Type(), true
		}
	}
	return nil, false
}

// m3Internal: fn is an unexported walker (a range-over-func iterator kept inside the package, such as
// `for e := range ht.inOrder`) whose callbacks are all function literals of the package that do not in
// turn call a function value they were given - so no caller-supplied code runs during the walk.
func m3Internal(p *Prog, fn *ssa.Function) bool {
	if fn.Object() == nil || fn.Object().Exported() || fn.Parent() != nil {
		return false
	}
	sites := 0
	ok := true
	for _, g := range p.Funcs {
		eachInstr(g, func(in ssa.Instruction) {
			// any use of fn other than a direct call disqualifies it (it may escape as an iter.Seq)
			for _, op := range in.Operands(nil) {
				if *op == ssa.Value(fn) {
					ci, isCall := in.(ssa.CallInstruction)
					if !isCall || ci.Common().Value != ssa.Value(fn) {
						ok = false
					}
				}
			}
			ci, isCall := in.(ssa.CallInstruction)
			if !isCall {
				// a method value `ht.inOrder` (as in `for e := range ht.inOrder`): the bound closure must
				// only ever be called
				if mc, isMC := in.(*ssa.MakeClosure); isMC {
					if w, isFn := mc.Fn.(*ssa.Function); isFn && w.Name() == fn.Name()+"$bound" && w.Pkg == nil && len(mc.Bindings) == 1 && types.Identical(mc.Bindings[0].Type(), fn.Signature.Recv().Type()) {
						if refs := mc.Referrers(); refs != nil {
							for _, r := range *refs {
								if c3, isC := r.(ssa.CallInstruction); !isC || c3.Common().Value != ssa.Value(mc) {
									if _, dbg := r.(*ssa.DebugRef); !dbg {
										ok = false
									}
								}
							}
						}
					}
				}
				return
			}
			isSite := ci.Common().StaticCallee() == fn
			if mc, isMC := ci.Common().Value.(*ssa.MakeClosure); isMC {
				if w, isFn := mc.Fn.(*ssa.Function); isFn && w.Name() == fn.Name()+"$bound" && fn.Signature.Recv() != nil && len(mc.Bindings) == 1 && types.Identical(mc.Bindings[0].Type(), fn.Signature.Recv().Type()) {
					isSite = true
				}
			}
			if !isSite {
				return
			}
			sites++
			for _, a := range ci.Common().Args {
				if _, isFunc := a.Type().Underlying().(*types.Signature); !isFunc {
					continue
				}
				mc, isLit := a.(*ssa.MakeClosure)
				var body *ssa.Function
				if isLit {
					body, _ = mc.Fn.(*ssa.Function)
				} else if f, isFn := a.(*ssa.Function); isFn {
					body = f
				}
				if body == nil || fnPkgPath(body) != fnPkgPath(fn) {
					ok = false
					continue
				}
				eachInstr(body, func(in2 ssa.Instruction) {
					c2, isCall := in2.(ssa.CallInstruction)
					if !isCall || c2.Common().IsInvoke() || c2.Common().StaticCallee() != nil {
						return
					}
					if _, isBuiltin := c2.Common().Value.(*ssa.Builtin); isBuiltin {
						return
					}
					ok = false // calls a function value: could be the outer caller's yield
				})
			}
		})
	}
	return ok && sites > 0
}
