package main

import (
	"fmt"
	"go/ast"
	"go/constant"
	"go/token"
	"go/types"
	"sort"
	"strings"

	"golang.org/x/tools/go/packages"
	"golang.org/x/tools/go/ssa"
)

func init() {
	register("V1", "opcode tables complete: every compile.Opcode from NOP to OpcodeMax has a name and lies within stackEffect's range; opcodes >= OpcodeArgMin are emitted only through emit1 and opcodes below it only through emit", 120, ruleV1)
	register("V2", "handler exhaustiveness: every opcode appears in exactly one case of the interpreter's switch", 60, ruleV2)
	register("V3", "stack-effect agreement: for every opcode with a constant stackEffect entry, the net change of sp along every non-error path of its interpreter arm equals the table entry (MAKETUPLE/MAKELIST/UNPACK are compared symbolically in arg with insn.stackeffect)", 55, ruleV3)
	register("V4", "enum alignment: wherever an opcode is converted to a token (or an augmented-assignment token to its operator) by arithmetic, the two enumerations are order-isomorphic on the bridged range", 1, ruleV4)
	register("V5", "scope coverage: the compiler's lookup and set dispatchers handle every resolve.Scope the resolver can attach, with the matching opcode family", 8, ruleV5)
}

// opcode tables (AST, constant-evaluated)
func arrayLitEntries(pk *packages.Package, name string) (map[int64]ast.Expr, int64, token.Pos) {
	out, n, pos := arrayLitEntries0(pk, name)
	if len(out) > 0 {
		return out, n, pos
	}
	// not a literal: perhaps filled in init() from a literal slice of rows
	tbl, tpos := initTable(pk, name)
	if tbl == nil {
		return out, n, pos
	}
	for k, vs := range tbl {
		var iv int64
		if _, err := fmt.Sscan(k, &iv); err == nil && len(vs) > 0 {
			out[iv] = vs[len(vs)-1]
		}
	}
	if o := pk.Types.Scope().Lookup(name); o != nil {
		if at, ok := o.Type().Underlying().(*types.Array); ok {
			n = at.Len()
		}
	}
	return out, n, tpos
}

func arrayLitEntries0(pk *packages.Package, name string) (map[int64]ast.Expr, int64, token.Pos) {
	out := map[int64]ast.Expr{}
	var n int64 = -1
	var pos token.Pos
	for _, f := range pk.Syntax {
		for _, d := range f.Decls {
			gd, ok := d.(*ast.GenDecl)
			if !ok || gd.Tok != token.VAR {
				continue
			}
			for _, sp := range gd.Specs {
				vs := sp.(*ast.ValueSpec)
				for i, id := range vs.Names {
					if id.Name != name || i >= len(vs.Values) {
						continue
					}
					cl, ok := vs.Values[i].(*ast.CompositeLit)
					if !ok {
						continue
					}
					pos = cl.Pos()
					if at, ok := pk.TypesInfo.TypeOf(cl).Underlying().(*types.Array); ok {
						n = at.Len()
					}
					idx := int64(0)
					for _, el := range cl.Elts {
						if kv, ok := el.(*ast.KeyValueExpr); ok {
							if tv := pk.TypesInfo.Types[kv.Key]; tv.Value != nil {
								idx, _ = constant.Int64Val(constant.ToInt(tv.Value))
							}
							out[idx] = kv.Value
						} else {
							out[idx] = el
						}
						idx++
					}
				}
			}
		}
	}
	return out, n, pos
}

func ruleV1(c *Ctx) {
	oi := opcodes(c)
	if oi == nil {
		return
	}
	pk := c.P.Pkg(compilePkg)
	names, nlen, npos := arrayLitEntries(pk, "opcodeNames")
	eff, elen, epos := arrayLitEntries(pk, "stackEffect")
	if len(names) == 0 || len(eff) == 0 {
		c.anchorFail("opcodeNames/stackEffect tables not found")
		return
	}
	for v := int64(0); v <= oi.max; v++ {
		n, ok := oi.names[v]
		key := fmt.Sprintf("opcode %d", v)
		if ok {
			key = "opcode " + n
		}
		if !ok {
			c.viol(key, c.P.Pos(npos), "gap in the Opcode enumeration below OpcodeMax")
			continue
		}
		e, has := names[v]
		s := ""
		if has {
			if tv := pk.TypesInfo.Types[e]; tv.Value != nil {
				s = constant.StringVal(tv.Value)
			}
		}
		switch {
		case !has || s == "":
			c.viol(key+": name", c.P.Pos(npos), "opcode has no entry in opcodeNames")
		case v >= nlen:
			c.viol(key+": name", c.P.Pos(npos), "opcode beyond opcodeNames' length")
		default:
			c.trivial(key+": name", c.P.Pos(e.Pos()), "named "+s)
		}
		if v >= elen {
			c.viol(key+": stackEffect range", c.P.Pos(epos), fmt.Sprintf("opcode %s (%d) indexes beyond the stackEffect array (len %d): the compiler would panic computing MaxStack", n, v, elen))
		} else {
			c.trivial(key+": stackEffect range", c.P.Pos(epos), "within stackEffect")
		}
	}
	// emit vs emit1
	emit := c.P.Func(compilePkg, "fcomp.emit")
	emit1 := c.P.Func(compilePkg, "fcomp.emit1")
	if emit == nil || emit1 == nil {
		c.anchorFail("fcomp.emit/emit1 not found")
		return
	}
	for _, fn := range c.P.Funcs {
		eachInstr(fn, func(in ssa.Instruction) {
			call, ok := in.(*ssa.Call)
			if !ok {
				return
			}
			cal := call.Call.StaticCallee()
			if cal != emit && cal != emit1 {
				return
			}
			ops, _ := possibleOpcodes(fn, call.Call.Args[1])
			for _, o := range ops {
				key := fmt.Sprintf("%s: %s %s", fnName(fn), cal.Name(), oi.names[o])
				pos := c.P.Pos(call.Pos())
				if (o >= oi.argMin) != (cal == emit1) {
					c.viol(key, pos, fmt.Sprintf("opcode %s is emitted through %s but OpcodeArgMin says it %s an operand (the compiler panics on this path)", oi.names[o], cal.Name(), map[bool]string{true: "takes", false: "takes no"}[o >= oi.argMin]))
				} else {
					c.trivial(key, pos, "operand form matches OpcodeArgMin")
				}
			}
		})
	}
}

func interpSwitch(c *Ctx) (*ast.SwitchStmt, *packages.Package) {
	fd, spk := c.P.FuncDecl("starlark", "Function.CallInternal")
	if fd == nil {
		c.anchorFail("(*starlark.Function).CallInternal syntax not found")
		return nil, nil
	}
	var sw *ast.SwitchStmt
	ast.Inspect(fd.Body, func(n ast.Node) bool {
		if s, ok := n.(*ast.SwitchStmt); ok && sw == nil {
			if id, ok := s.Tag.(*ast.Ident); ok && id.Name == "op" {
				sw = s
				return false
			}
		}
		return true
	})
	if sw == nil {
		c.anchorFail("switch op not found in CallInternal")
	}
	return sw, spk
}

func ruleV2(c *Ctx) {
	oi := opcodes(c)
	sw, spk := interpSwitch(c)
	if oi == nil || sw == nil {
		return
	}
	count := map[int64]int{}
	for _, cl := range sw.Body.List {
		for _, e := range cl.(*ast.CaseClause).List {
			if tv := spk.TypesInfo.Types[e]; tv.Value != nil {
				v, _ := constant.Int64Val(tv.Value)
				count[v]++
			}
		}
	}
	for v := int64(0); v <= oi.max; v++ {
		key := "handler " + oi.names[v]
		switch count[v] {
		case 1:
			c.ok(key, c.P.Pos(sw.Pos()), "exactly one interpreter arm")
		case 0:
			c.viol(key, c.P.Pos(sw.Pos()), "opcode "+oi.names[v]+" has no case in the interpreter's switch: executing it falls to the default arm (internal error) for a valid program")
		default:
			c.viol(key, c.P.Pos(sw.Pos()), "opcode listed in more than one case")
		}
	}
}

// ---- V3: symbolic sp effect ----

type spDelta struct {
	k   int64
	arg int64 // coefficient of arg
	unk bool
}

func (d spDelta) String() string {
	if d.unk {
		return "?"
	}
	if d.arg == 0 {
		return fmt.Sprintf("%+d", d.k)
	}
	return fmt.Sprintf("%+d%+d*arg", d.k, d.arg)
}

type armWalker struct {
	info   *types.Info
	syms   map[string]spDelta // local idents known as linear in arg
	result map[spDelta]bool
	notes  []string
}

func (w *armWalker) valueOf(e ast.Expr) spDelta {
	if tv, ok := w.info.Types[e]; ok && tv.Value != nil {
		v, exact := constant.Int64Val(constant.ToInt(tv.Value))
		if exact {
			return spDelta{k: v}
		}
	}
	switch x := e.(type) {
	case *ast.ParenExpr:
		return w.valueOf(x.X)
	case *ast.Ident:
		if x.Name == "arg" {
			return spDelta{arg: 1}
		}
		if d, ok := w.syms[x.Name]; ok {
			return d
		}
	case *ast.CallExpr:
		if tv, ok := w.info.Types[x.Fun]; ok && tv.IsType() && len(x.Args) == 1 {
			return w.valueOf(x.Args[0])
		}
	case *ast.BinaryExpr:
		a, b := w.valueOf(x.X), w.valueOf(x.Y)
		if a.unk || b.unk {
			return spDelta{unk: true}
		}
		switch x.Op {
		case token.ADD:
			return spDelta{k: a.k + b.k, arg: a.arg + b.arg}
		case token.SUB:
			return spDelta{k: a.k - b.k, arg: a.arg - b.arg}
		}
	}
	return spDelta{unk: true}
}

// walk returns the set of (delta) for paths that fall through the statements;
// terminated paths (break loop with err set, or RETURN's break) are dropped.
func (w *armWalker) walk(stmts []ast.Stmt, in []spDelta) []spDelta {
	cur := in
	for _, s := range stmts {
		if len(cur) == 0 {
			return nil
		}
		cur = w.stmt(s, cur)
	}
	return cur
}

func addDelta(ds []spDelta, d spDelta, sign int64) []spDelta {
	out := make([]spDelta, 0, len(ds))
	seen := map[spDelta]bool{}
	for _, x := range ds {
		y := spDelta{k: x.k + sign*d.k, arg: x.arg + sign*d.arg, unk: x.unk || d.unk}
		if !seen[y] {
			seen[y] = true
			out = append(out, y)
		}
	}
	return out
}

func union(a, b []spDelta) []spDelta {
	seen := map[spDelta]bool{}
	var out []spDelta
	for _, x := range append(append([]spDelta{}, a...), b...) {
		if !seen[x] {
			seen[x] = true
			out = append(out, x)
		}
	}
	return out
}

func (w *armWalker) stmt(s ast.Stmt, cur []spDelta) []spDelta {
	switch x := s.(type) {
	case *ast.IncDecStmt:
		if id, ok := x.X.(*ast.Ident); ok && id.Name == "sp" {
			if x.Tok == token.INC {
				return addDelta(cur, spDelta{k: 1}, 1)
			}
			return addDelta(cur, spDelta{k: 1}, -1)
		}
	case *ast.AssignStmt:
		if len(x.Lhs) == 1 {
			if id, ok := x.Lhs[0].(*ast.Ident); ok {
				if id.Name == "sp" {
					switch x.Tok {
					case token.ADD_ASSIGN:
						return addDelta(cur, w.valueOf(x.Rhs[0]), 1)
					case token.SUB_ASSIGN:
						return addDelta(cur, w.valueOf(x.Rhs[0]), -1)
					default:
						return addDelta(cur, spDelta{unk: true}, 1)
					}
				}
				if x.Tok == token.DEFINE || x.Tok == token.ASSIGN {
					v := w.valueOf(x.Rhs[0])
					if !v.unk {
						w.syms[id.Name] = v
					} else {
						delete(w.syms, id.Name)
					}
				}
			}
		}
	case *ast.BranchStmt:
		// break loop / continue loop: path leaves the arm
		if x.Tok == token.BREAK && x.Label != nil {
			return nil
		}
		if x.Tok == token.BREAK && x.Label == nil {
			return cur // break out of an inner for/switch: approximated as fallthrough
		}
		if x.Tok == token.CONTINUE && x.Label != nil {
			// continue loop: normal completion of the instruction
			for _, d := range cur {
				w.result[d] = true
			}
			return nil
		}
	case *ast.BlockStmt:
		return w.walk(x.List, cur)
	case *ast.IfStmt:
		if x.Init != nil {
			cur = w.stmt(x.Init, cur)
		}
		a := w.walk(x.Body.List, cur)
		var b []spDelta
		if x.Else != nil {
			b = w.stmt(x.Else, cur)
		} else {
			b = cur
		}
		return union(a, b)
	case *ast.ForStmt:
		body := w.walk(x.Body.List, []spDelta{{}})
		for _, d := range body {
			if d != (spDelta{}) {
				w.notes = append(w.notes, "sp changes inside a loop")
				return addDelta(cur, spDelta{unk: true}, 1)
			}
		}
		return cur
	case *ast.RangeStmt:
		body := w.walk(x.Body.List, []spDelta{{}})
		for _, d := range body {
			if d != (spDelta{}) {
				w.notes = append(w.notes, "sp changes inside a loop")
				return addDelta(cur, spDelta{unk: true}, 1)
			}
		}
		return cur
	case *ast.SwitchStmt:
		var out []spDelta
		hasDefault := false
		for _, cl := range x.Body.List {
			cc := cl.(*ast.CaseClause)
			if cc.List == nil {
				hasDefault = true
			}
			out = union(out, w.walk(cc.Body, cur))
		}
		if !hasDefault {
			out = union(out, cur)
		}
		return out
	case *ast.TypeSwitchStmt:
		var out []spDelta
		hasDefault := false
		for _, cl := range x.Body.List {
			cc := cl.(*ast.CaseClause)
			if cc.List == nil {
				hasDefault = true
			}
			out = union(out, w.walk(cc.Body, cur))
		}
		if !hasDefault {
			out = union(out, cur)
		}
		return out
	case *ast.LabeledStmt:
		return w.stmt(x.Stmt, cur)
	}
	return cur
}

func ruleV3(c *Ctx) {
	oi := opcodes(c)
	sw, spk := interpSwitch(c)
	if oi == nil || sw == nil {
		return
	}
	pk := c.P.Pkg(compilePkg)
	eff, _, epos := arrayLitEntries(pk, "stackEffect")
	if len(eff) == 0 {
		c.anchorFail("the stackEffect table is not a composite literal of constants any more; its contents cannot be evaluated statically")
		return
	}
	variable := int64(0x7f)
	if o := pk.Types.Scope().Lookup("variableStackEffect"); o != nil {
		if k, ok := o.(*types.Const); ok {
			variable, _ = constant.Int64Val(k.Val())
		}
	}
	table := func(v int64) (int64, bool) {
		e, ok := eff[v]
		if !ok {
			return 0, true // omitted entry of an array literal is zero
		}
		tv := pk.TypesInfo.Types[e]
		if tv.Value == nil {
			return 0, false
		}
		x, _ := constant.Int64Val(constant.ToInt(tv.Value))
		return x, true
	}
	// symbolic effects of variable opcodes from insn.stackeffect()
	varEff := variableEffects(c, pk)
	for _, cl := range sw.Body.List {
		cc := cl.(*ast.CaseClause)
		if cc.List == nil {
			continue
		}
		w := &armWalker{info: spk.TypesInfo, syms: map[string]spDelta{}, result: map[spDelta]bool{}}
		out := w.walk(cc.Body, []spDelta{{}})
		for _, d := range out {
			w.result[d] = true
		}
		var ds []spDelta
		for d := range w.result {
			ds = append(ds, d)
		}
		sort.Slice(ds, func(i, j int) bool { return ds[i].String() < ds[j].String() })
		for _, e := range cc.List {
			tv := spk.TypesInfo.Types[e]
			if tv.Value == nil {
				continue
			}
			v, _ := constant.Int64Val(tv.Value)
			name := oi.names[v]
			key := "stack effect " + name
			pos := c.P.Pos(cc.Pos())
			want, ok := table(v)
			if !ok {
				c.viol(key, c.P.Pos(epos), "stackEffect entry is not a constant")
				continue
			}
			if want == variable {
				sym, known := varEff[name]
				if name == "ITERJMP" {
					// documented special case: +1 on the fall-through (element pushed), 0 on the exhausted jump;
					// the stack-depth pass in pcomp.function adds the +1 on the fall-through successor
					if len(ds) == 2 && ds[0] == (spDelta{}) && ds[1] == (spDelta{k: 1}) {
						c.ok(key, pos, "arm changes sp by 0 (exhausted) or +1 (element pushed), as insn.stackeffect documents")
					} else {
						c.viol(key, pos, fmt.Sprintf("ITERJMP's arm changes sp by %v; expected 0 on the exhausted edge and +1 on the fall-through", ds))
					}
					continue
				}
				switch {
				case !known:
					c.trivial(key, pos, "variable effect (operand-dependent; layout checked by A1/A2)")
				case len(ds) == 1 && ds[0] == sym:
					c.ok(key, pos, "interpreter arm changes sp by "+ds[0].String()+" = insn.stackeffect()")
				default:
					c.viol(key, pos, fmt.Sprintf("insn.stackeffect() computes %s for %s but the interpreter arm changes sp by %v: MaxStack would be wrong for some program", sym, name, ds))
				}
				continue
			}
			if len(ds) == 0 {
				if name == "RETURN" {
					c.trivial(key, pos, "terminal instruction (no fall-through path)")
				} else {
					c.viol(key, pos, "no non-error path through the interpreter arm")
				}
				continue
			}
			bad := false
			for _, d := range ds {
				if d.unk || d.arg != 0 || d.k != want {
					bad = true
				}
			}
			if bad {
				c.viol(key, pos, fmt.Sprintf("stackEffect[%s] = %+d but the interpreter arm changes sp by %v on some non-error path: the operand stack would overflow its MaxStack allocation or underflow for some program", name, want, ds))
			} else {
				c.ok(key, pos, fmt.Sprintf("table %+d = arm %v", want, ds))
			}
		}
	}
}

// variableEffects extracts `se = <expr in arg>` per case of insn.stackeffect's switch.
func variableEffects(c *Ctx, pk *packages.Package) map[string]spDelta {
	out := map[string]spDelta{}
	fd, _ := c.P.FuncDecl(compilePkg, "insn.stackeffect")
	if fd == nil {
		c.anchorFail("insn.stackeffect not found")
		return out
	}
	ast.Inspect(fd.Body, func(n ast.Node) bool {
		sw, ok := n.(*ast.SwitchStmt)
		if !ok {
			return true
		}
		for _, cl := range sw.Body.List {
			cc := cl.(*ast.CaseClause)
			if len(cc.Body) != 1 {
				continue
			}
			as, ok := cc.Body[0].(*ast.AssignStmt)
			if !ok || len(as.Lhs) != 1 {
				continue
			}
			w := &armWalker{info: pk.TypesInfo, syms: map[string]spDelta{}}
			d := w.valueOf(as.Rhs[0])
			if d.unk {
				continue
			}
			for _, e := range cc.List {
				if id, ok := e.(*ast.Ident); ok {
					out[id.Name] = d
				}
			}
		}
		return false
	})
	return out
}

// ---------- V4 ----------

func enumConsts(pk *packages.Package, typeName string) (map[string]int64, map[int64][]string) {
	byName := map[string]int64{}
	byVal := map[int64][]string{}
	o := pk.Types.Scope().Lookup(typeName)
	if o == nil {
		return byName, byVal
	}
	for _, n := range pk.Types.Scope().Names() {
		k, ok := pk.Types.Scope().Lookup(n).(*types.Const)
		if !ok || !types.Identical(k.Type(), o.Type()) {
			continue
		}
		v, _ := constant.Int64Val(k.Val())
		byName[n] = v
		byVal[v] = append(byVal[v], n)
	}
	return byName, byVal
}

func ruleV4(c *Ctx) {
	synPk, cmpPk := c.P.Pkg("syntax"), c.P.Pkg(compilePkg)
	if synPk == nil || cmpPk == nil {
		c.anchorFail("syntax/compile packages not loaded")
		return
	}
	tokByName, tokByVal := enumConsts(synPk, "Token")
	opByName, opByVal := enumConsts(cmpPk, "Opcode")
	if len(tokByName) < 40 || len(opByName) < 40 {
		c.anchorFail("Token/Opcode enumerations not found")
		return
	}
	typeOfConst := func(info *types.Info, e ast.Expr) (string, int64, string, bool) {
		tv, ok := info.Types[e]
		if !ok || tv.Value == nil {
			return "", 0, "", false
		}
		_, tn := namedOf(tv.Type)
		v, _ := constant.Int64Val(constant.ToInt(tv.Value))
		name := ""
		switch x := e.(type) {
		case *ast.Ident:
			name = x.Name
		case *ast.SelectorExpr:
			name = x.Sel.Name
		}
		return tn, v, name, tn == "Token" || tn == "Opcode"
	}
	nameCands := func(n string) []string {
		out := []string{n}
		if strings.HasSuffix(n, "_EQ") {
			out = append(out, strings.TrimSuffix(n, "_EQ"))
		}
		if strings.HasPrefix(n, "U") {
			out = append(out, strings.TrimPrefix(n, "U"))
		}
		return out
	}
	bridges := 0
	for _, rel := range []string{"starlark", compilePkg, "resolve", "syntax"} {
		pk := c.P.Pkg(rel)
		if pk == nil {
			continue
		}
		info := pk.TypesInfo
		// call sites of the package's functions, with the case clause each lies in (a bridge moved into a
		// helper `func binaryToken(op Opcode) Token` is judged by the clause its caller lies in)
		callClauses := map[types.Object][]*ast.CaseClause{}
		for _, f := range pk.Syntax {
			var st []ast.Node
			ast.Inspect(f, func(n ast.Node) bool {
				if n == nil {
					st = st[:len(st)-1]
					return true
				}
				st = append(st, n)
				if call, ok := n.(*ast.CallExpr); ok {
					if id, ok := call.Fun.(*ast.Ident); ok {
						if fo, ok := info.Uses[id].(*types.Func); ok {
							var cl *ast.CaseClause
							for i := len(st) - 1; i >= 0 && cl == nil; i-- {
								if cc, ok := st[i].(*ast.CaseClause); ok {
									cl = cc
								}
							}
							callClauses[fo] = append(callClauses[fo], cl)
						}
					}
				}
				return true
			})
		}
		for _, f := range pk.Syntax {
			// track enclosing case clauses
			var stack []ast.Node
			ast.Inspect(f, func(n ast.Node) bool {
				if n == nil {
					stack = stack[:len(stack)-1]
					return true
				}
				stack = append(stack, n)
				be, ok := n.(*ast.BinaryExpr)
				if !ok || be.Op != token.ADD {
					return true
				}
				// (conv?)(X - A) + B   or  X - A + B
				toT, bv, bname, okB := typeOfConst(info, be.Y)
				if !okB {
					return true
				}
				inner := be.X
				if call, ok := inner.(*ast.CallExpr); ok && len(call.Args) == 1 {
					if tv := info.Types[call.Fun]; tv.IsType() {
						inner = call.Args[0]
					}
				}
				if p, ok := inner.(*ast.ParenExpr); ok {
					inner = p.X
				}
				sub, ok := inner.(*ast.BinaryExpr)
				if !ok || sub.Op != token.SUB {
					return true
				}
				fromT, av, aname, okA := typeOfConst(info, sub.Y)
				if !okA {
					return true
				}
				bridges++
				// domain: constants of fromT in the nearest enclosing case clause
				var dom []string
				src, dstByVal := tokByName, tokByVal
				if fromT == "Opcode" {
					src = opByName
				}
				if toT == "Opcode" {
					dstByVal = opByVal
				}
				var clause *ast.CaseClause
				excluded := map[string]bool{}
				for i := len(stack) - 1; i >= 0 && clause == nil; i-- {
					if cc, ok := stack[i].(*ast.CaseClause); ok {
						// the default arm of an inner switch on the same value, nested in an arm of the outer
						// one: the outer arm's constants minus those the inner switch names
						if cc.List == nil && i > 1 {
							outer := false
							for j := i - 1; j >= 0; j-- {
								if oc, ok := stack[j].(*ast.CaseClause); ok && oc.List != nil {
									outer = true
								}
							}
							if sw, ok := stack[i-2].(*ast.SwitchStmt); ok && outer {
								for _, cl := range sw.Body.List {
									for _, e := range cl.(*ast.CaseClause).List {
										if tn, _, nm, ok := typeOfConst(info, e); ok && tn == fromT {
											excluded[nm] = true
										}
									}
								}
								continue
							}
						}
						clause = cc
					}
				}
				var helperBody *ast.BlockStmt
				if clause == nil {
					// not inside a case clause: a helper function whose parameter is the converted value
					for i := len(stack) - 1; i >= 0; i-- {
						fd, ok := stack[i].(*ast.FuncDecl)
						if !ok {
							continue
						}
						if fo := info.Defs[fd.Name]; fo != nil && fd.Recv == nil && !fd.Name.IsExported() {
							sites := callClauses[fo]
							if len(sites) == 1 && sites[0] != nil {
								clause = sites[0]
								helperBody = fd.Body
							}
						}
						break
					}
				}
				if helperBody != nil {
					ast.Inspect(helperBody, func(m ast.Node) bool {
						if ifs, ok := m.(*ast.IfStmt); ok {
							if cb, ok := ifs.Cond.(*ast.BinaryExpr); ok && (cb.Op == token.EQL || cb.Op == token.NEQ) {
								if tn, _, nm, ok := typeOfConst(info, cb.Y); ok && tn == fromT {
									excluded[nm] = true
								}
							}
						}
						return true
					})
				}
				if clause != nil && clause.List != nil {
					for _, e := range clause.List {
						if tn, _, nm, ok := typeOfConst(info, e); ok && tn == fromT {
							dom = append(dom, nm)
						}
					}
					// overrides inside the clause: `if op == K`
					ast.Inspect(clause, func(m ast.Node) bool {
						if ifs, ok := m.(*ast.IfStmt); ok {
							if cb, ok := ifs.Cond.(*ast.BinaryExpr); ok && (cb.Op == token.EQL || cb.Op == token.NEQ) {
								// `if op == K { special } else { bridge }` and `if op != K { bridge }`: K does not go through the bridge
								if tn, _, nm, ok := typeOfConst(info, cb.Y); ok && tn == fromT {
									excluded[nm] = true
								}
							}
						}
						return true
					})
				}
				if len(dom) == 0 {
					// default clause: augmented assignment tokens not handled by sibling cases
					siblings := map[string]bool{}
					for i := len(stack) - 1; i >= 0; i-- {
						if sw, ok := stack[i].(*ast.SwitchStmt); ok {
							for _, cl := range sw.Body.List {
								for _, e := range cl.(*ast.CaseClause).List {
									if _, _, nm, ok := typeOfConst(info, e); ok {
										siblings[nm] = true
									}
								}
							}
							break
						}
					}
					for nm := range src {
						if strings.HasSuffix(nm, "_EQ") && strings.HasSuffix(aname, "_EQ") && !siblings[nm] {
							dom = append(dom, nm)
						}
					}
				}
				sort.Strings(dom)
				where := c.P.Pos(be.Pos())
				if len(dom) == 0 {
					// range guard: `case LO <= op && op <= HI:` or `if LO <= op && op <= HI`
					var conds []ast.Expr
					for i := len(stack) - 1; i >= 0; i-- {
						switch x := stack[i].(type) {
						case *ast.CaseClause:
							conds = append(conds, x.List...)
						case *ast.IfStmt:
							conds = append(conds, x.Cond)
						}
					}
					lo, hi, haveLo, haveHi := int64(0), int64(0), false, false
					for _, cnd := range conds {
						ast.Inspect(cnd, func(m ast.Node) bool {
							cb, ok := m.(*ast.BinaryExpr)
							if !ok {
								return true
							}
							if tn, v, _, ok := typeOfConst(info, cb.X); ok && tn == fromT && (cb.Op == token.LEQ) {
								lo, haveLo = v, true // LO <= op
							}
							if tn, v, _, ok := typeOfConst(info, cb.Y); ok && tn == fromT && (cb.Op == token.LEQ) {
								hi, haveHi = v, true // op <= HI
							}
							return true
						})
					}
					if haveLo && haveHi {
						for nm, v := range src {
							if v >= lo && v <= hi {
								dom = append(dom, nm)
							}
						}
						sort.Strings(dom)
					}
					// predicate guard: `if isComparison(op)` where the predicate's body lists the values
					if len(dom) == 0 {
						for _, cnd := range conds {
							call, ok := cnd.(*ast.CallExpr)
							if !ok || len(call.Args) != 1 {
								continue
							}
							id, ok := call.Fun.(*ast.Ident)
							if !ok {
								continue
							}
							fobj, ok := info.Uses[id].(*types.Func)
							if !ok {
								continue
							}
							for _, pk := range c.P.Pkgs {
								for _, f := range pk.Syntax {
									for _, d := range f.Decls {
										fd, ok := d.(*ast.FuncDecl)
										if !ok || fd.Body == nil || pk.TypesInfo.Defs[fd.Name] != fobj {
											continue
										}
										ast.Inspect(fd.Body, func(m ast.Node) bool {
											if cc, ok := m.(*ast.CaseClause); ok {
												returnsTrue := false
												for _, st := range cc.Body {
													if rs, ok := st.(*ast.ReturnStmt); ok && len(rs.Results) == 1 && types.ExprString(rs.Results[0]) == "true" {
														returnsTrue = true
													}
												}
												if returnsTrue {
													for _, e := range cc.List {
														if tn, _, nm, ok := typeOfConst(pk.TypesInfo, e); ok && tn == fromT {
															dom = append(dom, nm)
														}
													}
												}
											}
											return true
										})
									}
								}
							}
						}
						sort.Strings(dom)
					}
				}
				if len(dom) == 0 {
					c.anchorFail("enum bridge %s-%s+%s at %s: cannot determine the range of values it converts", fromT, aname, bname, where)
					return true
				}
				for _, d := range dom {
					if excluded[d] {
						continue
					}
					key := fmt.Sprintf("bridge %s.%s -> %s (via -%s+%s)", fromT, d, toT, aname, bname)
					img := src[d] - av + bv
					okName := false
					for _, got := range dstByVal[img] {
						for _, want := range nameCands(d) {
							if got == want {
								okName = true
							}
						}
					}
					if okName {
						c.ok(key, where, fmt.Sprintf("%s maps to %v", d, dstByVal[img]))
					} else {
						c.viol(key, where, fmt.Sprintf("enum arithmetic maps %s.%s to %s value %d = %v, not to its namesake: the two enumerations are out of step", fromT, d, toT, img, dstByVal[img]))
					}
				}
				return true
			})
		}
	}
	// arithmetic bridges may legitimately be replaced by explicit tables; the rule is then moot
	c.trivial("enum bridges found", "-", fmt.Sprintf("%d arithmetic conversions between Token and Opcode examined", bridges))
}

// ---------- V5 ----------

func ruleV5(c *Ctx) {
	resPk := c.P.Pkg("resolve")
	if resPk == nil {
		c.anchorFail("package resolve not loaded")
		return
	}
	scopes, _ := enumConsts(resPk, "Scope")
	if len(scopes) < 6 {
		c.anchorFail("resolve.Scope constants not found")
		return
	}
	oi := opcodes(c)
	if oi == nil {
		return
	}
	scopeNames := map[int64]string{}
	for n, v := range scopes {
		scopeNames[v] = n
	}
	// caseScopes: which opcodes does the function emit when the binding's scope is S?  Computed on the SSA
	// form (switch and if/else chains look alike there): a forward propagation of the set of scope values
	// still possible at each block, refined by the == / != tests on the loaded Scope field.
	caseScopes := func(fname string) (map[string][]string, token.Pos) {
		out := map[string][]string{}
		fn := c.P.Func(compilePkg, fname)
		if fn == nil {
			c.anchorFail("%s not found", fname)
			return out, token.NoPos
		}
		isScopeLoad := func(v ssa.Value) bool {
			for i := 0; i < 4; i++ {
				switch x := v.(type) {
				case *ssa.UnOp:
					if x.Op != token.MUL {
						return false
					}
					if fa, ok := x.X.(*ssa.FieldAddr); ok {
						_, f := ownerField(fa)
						return f == "Scope"
					}
					if al, ok := x.X.(*ssa.Alloc); ok {
						// a local copy: scope := bind.Scope
						for _, r := range *al.Referrers() {
							if st, ok := r.(*ssa.Store); ok && st.Addr == al {
								v = st.Val
							}
						}
						continue
					}
					return false
				case *ssa.Field:
					st := x.X.Type().Underlying().(*types.Struct)
					return st.Field(x.Field).Name() == "Scope"
				case *ssa.Convert:
					v = x.X
					continue
				case *ssa.ChangeType:
					v = x.X
					continue
				}
				return false
			}
			return false
		}
		all := map[int64]bool{}
		for _, v := range scopes {
			all[v] = true
		}
		poss := map[*ssa.BasicBlock]map[int64]bool{}
		refine := func(in map[int64]bool, ifi *ssa.If, branch bool) map[int64]bool {
			cond, neg := stripNot(ifi.Cond)
			taken := branch != neg
			bo, ok := cond.(*ssa.BinOp)
			if !ok || (bo.Op != token.EQL && bo.Op != token.NEQ) {
				return in
			}
			var k int64
			var okk bool
			if isScopeLoad(bo.X) {
				k, okk = constInt(bo.Y)
			} else if isScopeLoad(bo.Y) {
				k, okk = constInt(bo.X)
			}
			if !okk {
				return in
			}
			eq := (bo.Op == token.EQL) == taken
			out := map[int64]bool{}
			for v := range in {
				if (v == k) == eq {
					out[v] = true
				}
			}
			return out
		}
		for changed, round := true, 0; changed && round < 50; round++ {
			changed = false
			for i, b := range fn.Blocks {
				var nin map[int64]bool
				if i == 0 {
					nin = all
				} else {
					nin = map[int64]bool{}
					for _, p := range b.Preds {
						pin, ok := poss[p]
						if !ok {
							continue
						}
						e := pin
						if len(p.Instrs) > 0 {
							if ifi, ok := p.Instrs[len(p.Instrs)-1].(*ssa.If); ok && p.Succs[0] != p.Succs[1] {
								e = refine(pin, ifi, p.Succs[0] == b)
							}
						}
						for v := range e {
							nin[v] = true
						}
					}
				}
				old := poss[b]
				if old == nil || len(old) != len(nin) {
					poss[b] = nin
					changed = true
				}
			}
		}
		eachInstr(fn, func(in ssa.Instruction) {
			call, ok := in.(*ssa.Call)
			if !ok || in.Parent() != fn {
				return
			}
			cal := call.Call.StaticCallee()
			if cal == nil || !strings.HasPrefix(cal.Name(), "emit") || len(call.Call.Args) < 2 {
				return
			}
			k, ok := constInt(call.Call.Args[1])
			if !ok {
				return
			}
			ps := poss[call.Block()]
			if len(ps) == len(all) {
				return // not under any scope test
			}
			for v := range ps {
				out[scopeNames[v]] = append(out[scopeNames[v]], oi.names[k])
			}
		})
		return out, fn.Pos()
	}
	lk, lpos := caseScopes("fcomp.lookup")
	st, spos := caseScopes("fcomp.set")
	wantLookup := map[string]string{"Local": "LOCAL", "Cell": "LOCALCELL", "Free": "FREECELL", "Global": "GLOBAL", "Predeclared": "PREDECLARED", "Universal": "UNIVERSAL"}
	wantSet := map[string]string{"Local": "SETLOCAL", "Cell": "SETLOCALCELL", "Global": "SETGLOBAL"}
	for sc := range scopes {
		if sc == "Undefined" {
			continue
		}
		key := "lookup scope " + sc
		ops, ok := lk[sc]
		switch {
		case !ok:
			c.viol(key, c.P.Pos(lpos), "fcomp.lookup has no arm for resolve."+sc+": a use the resolver accepts makes the compiler panic")
		case len(ops) != 1 || ops[0] != wantLookup[sc]:
			c.viol(key, c.P.Pos(lpos), fmt.Sprintf("fcomp.lookup emits %v for scope %s, expected %s", ops, sc, wantLookup[sc]))
		default:
			c.ok(key, c.P.Pos(lpos), "emits "+ops[0])
		}
	}
	for sc, want := range wantSet {
		key := "set scope " + sc
		ops, ok := st[sc]
		switch {
		case !ok:
			c.viol(key, c.P.Pos(spos), "fcomp.set has no arm for resolve."+sc)
		case len(ops) != 1 || ops[0] != want:
			c.viol(key, c.P.Pos(spos), fmt.Sprintf("fcomp.set emits %v for scope %s, expected %s", ops, sc, want))
		default:
			c.ok(key, c.P.Pos(spos), "emits "+ops[0])
		}
	}
}
