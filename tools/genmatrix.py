#!/usr/bin/env python3
"""tools/genmatrix.py <matrix-output> : takes the output of tools/matrix.sh, (re)writes
seeded/<id>/meta.json for every seed and the detection table of DESIGN.md section 6.2."""
import json,os,re,sys
V=os.path.dirname(os.path.dirname(os.path.abspath(__file__)))
matrix={}
for l in open(sys.argv[1]):
    if ':' in l:
        k,v=l.strip().split(':',1); matrix[k]=v.strip()
rows=[]
for d in sorted(os.listdir(V+'/seeded')):
    if not re.match(r'C\d\d-',d): continue
    pid,var=d.split('-',1)
    sd=f'{V}/seeded/{d}'
    readme=open(sd+'/README.txt').read() if os.path.exists(sd+'/README.txt') else ''
    log=open(sd+'/confirm.log').read()
    base=re.search(r'base commit: (\S+)',log).group(1)
    det=matrix.get(d)
    if det and 'DOES NOT' in det:
        sys.exit(f'{d}: patch does not apply to HEAD - add seeded/{d}/patch.head.diff')
    old=json.load(open(sd+'/meta.json')) if os.path.exists(sd+'/meta.json') else {}
    if det is None:
        det=' '.join(old.get('detected_by_rules',[])) or 'MISSED'
    summ=' '.join([x.strip() for x in readme.splitlines() if x.strip()][:6])[:600]
    needs=''
    mm=re.search(r'(?ims)^\s*(Needs[^\n]*?:|Needed[^\n]*?:|What it needs[^\n]*?:|Trigger[^\n]*?:|Manifests[^\n]*?:)(.*?)(?=^\s*(Commands|Demonstration|Demo|Why|Files|How|Run|Change|Verification|Results|Outcomes)\b|\Z)',readme)
    if mm: needs=re.sub(r'\s+',' ',mm.group(1)+mm.group(2)).strip()[:700]
    if not needs:
        for x in readme.splitlines():
            if re.search(r'(?i)needs|trigger|manifest|only (shows|when)|requires',x):
                needs=x.strip()[:400]; break
    m_=re.match(r'r(\d+)',var); rnd=int(m_.group(1)) if m_ else 1
    meta={"property":pid,"variant":var,"round":rnd,
      "author":"independent sub-agent given only the property text and its own worktree",
      "base_commit":base,"summary":summ,"needs_to_manifest":needs,
      "confirmed_by_me":{
         "what_i_ran":"tools/confirm_seed.sh (scratch worktree of base_commit): demo on clean tree, full suite with the patch, demo with the patch; see confirm.log",
         "demo_on_clean_tree":"pass" if "demo on clean tree: exit 0" in log else "FAIL",
         "full_suite_with_change":"pass" if "full suite with change: exit 0" in log else "FAIL",
         "demo_with_change":"fails (as required)" if re.search(r'demo with change: exit [1-9]',log) else "passes (?)",
         "verdict":"CONFIRMED" if "verdict: CONFIRMED" in log else "NOT CONFIRMED"},
      "checked_with":"tools/seedall.sh (patch applied to a throw-away worktree of /repo HEAD, every rule run once)",
      "detected_by_rules":[] if det=='MISSED' else det.split(),"detected":det!='MISSED'}
    json.dump(meta,open(sd+'/meta.json','w'),indent=1)
    rows.append((d,pid,rnd,det,summ))
lines=['| seed | breaks | what the change is (author\'s words, abridged) | detected by |','|---|---|---|---|']
for d,pid,rnd,det,summ in rows:
    s=re.sub(r'\s+',' ',summ).replace('|','/')[:170]
    lines.append(f"| {d} | {pid} | {s} | {'**-**' if det=='MISSED' else det} |")
lines.append('')
for r in sorted(set(x[2] for x in rows)):
    rr=[x for x in rows if x[2]==r]
    lines.append(f"Round {r}: {sum(1 for x in rr if x[3]!='MISSED')} of {len(rr)} detected.")
det=sum(1 for r in rows if r[3]!='MISSED')
lines.append(f"**All rounds: {det} of {len(rows)} seeds detected**, {len(rows)-det} not detected.")
tbl='\n'.join(lines)
p=V+'/DESIGN.md'
s=open(p).read()
s=re.sub(r'<!-- MATRIX-BEGIN -->.*?<!-- MATRIX-END -->',lambda m:'<!-- MATRIX-BEGIN -->\n'+tbl+'\n<!-- MATRIX-END -->',s,flags=re.S)
open(p,'w').write(s)
print(det,len(rows))
