#!/usr/bin/env python3
"""Regenerates the rule table of DESIGN.md Appendix A from `bin/verifsa rules`
(rule name, properties, doc string) and the origins recorded below."""
import subprocess,re,sys,os
V=os.path.dirname(os.path.dirname(os.path.abspath(__file__)))
origin={
 'B3':'added after seed C19-a (later made helper-aware: sign functions)','B4':'added after seed C19-b','B5':'added after seed C19-r2b',
 'D5':'added after seed C03-r2a','E6':'added after seed C11-a','E7':'added after seed C11-r2a',
 'H4':'added after seed C12-a','H5':'added after seed C03-r2b','H6':'added after seed C12-r2b',
 'I7':'added after seed C10-a','I8':'added after seed C10-b',
 'I6':'planned as a sign/width abstract interpretation; built late as a taint rule with enumerated safe idioms (4.4)',
 'I6T':'I6 restricted to lib/time (Duration arithmetic), claimed under C19',
 'L5':'added after seed C16-b','L6':'added after seed C16-r2b',
 'O4':'planned as a per-function count; reformulated after refactoring patch C (see 4.2)',
 'O7':'added after seed C09-a','O8':'added after seed C09-r2a',
 'Q4':'added after seed C15-a','S5':'added after seed C07-r2b','A5':'added after seed C08-r2a',
 'T5':'added after seed C14-b','TC':'planned (thread confinement)',
 'V6':'added after seed C01-r2b','V7':'planned as P3 (iterator push/pop balance in the compiler)',
 'W5':'added after seed C04-b (written before running it: the seed was read first)','W6':'added after seed C05-r2a',
 'P2':'planned; the unconditional-drain clause was added after seed C01-r2a',
 'V8':'added after seed C01-a','V9':'added after seed C01-b','V10':'added after seed C01-r3a','W7':'added after seed C01-r3b','N8':'added after seed C02-r3b',
 'F4':'added after seed C04-r3a','S6':'added after seed C07-r3b','S2':'planned; the read-inside-the-loop clause was added after seed C07-r3a','O9':'added after seed C09-r3a','O10':'added after seed C09-r3b',
 'T6':'added after seed C10-r3b','Q5':'added after seed C15-r3b','R4':'added after seed C20-r3a','R5':'added after seed C20-r3b',
 'W8':'added after seed C08-r4b','F5':'added after seed C05-r4a (also detects C04-r2a, the same idea)','M3':'added after seed C06-r4a','L7':'added after seed C16-r4b','H7':'added after seed C11-r4a','R6':'added after seed C20-r4b',
 'F6':'added after seed C04-r4a','F7':'added after seed C04-r4b','A6':'added after seed C08-r4a','A7':'added after seed C01-r4a','A8':'added after seed C12-r4b (general rule; found the time.now defect)','E8':'added after seed C11-r4b','W9':'added after seed C03-r4b','B7':'added after seed C19-r4b','I9':'added after seed C19-r4a (found the duration // duration defect)','O11':'added after seed C01-r4b','O12':'added after seed C09-r4a','N9':'added after seed C02-r4a','N10':'added after seed C02-r4b','I2':'planned (section 3, C10); built after seed C02-r5a','J5':'added after seeds C18-r2a/C18-r5a (found the DEL quoting defect)','V11':'added after seed C01-r5a','V12':'added after seed C01-r5b','O13':'added after seed C02-r5b','F8':'added after seed C04-r5a','A9':'added after seed C08-r5b','O14':'added after seed C09-r5b','E9':'added after seed C11-r5a','H8':'added after seed C12-r5a',
 'D1':'planned; comparator clause added after seed C03-r5b','D4':'planned; package initialisers, sync.Pool and maphash added after seeds C17-r4a/C11-r5b','I6':'planned as a sign/width abstract interpretation; built late as a taint rule with enumerated safe idioms (4.4); strconv sources and sign-changing conversions added after seed C10-r5a',
 'S7':'added after seeds C07-r5a/C07-r5b','R7':'added after seed C20-r5b','Q6':'added after seed C15-r5a','Z6':'added after seed C17-r4b','Q7':'added after seed C15-r4b (first rule on the abstract executor)','A10':'added after seed C08-r3b, once the abstract executor existed','Q8':'added after seed C15-r2a, once the abstract executor existed','I10':'added with the abstract executor (boundary of MakeInt64/MakeUint64)','J6':'added after the property text and sub-agents named the defect (found finding #21)','I11':'added after seed C10-r6b','I12':'added after seed C12-r6b','F9':'added after seed C04-r6a','O16':'added after seed C09-r6b','R8':'added after seed C20-r6b','S8':'added after seeds C07-r6a/C07-r6b','O15':'added after seed C01-r6b',
 'X1':'added after seed C06-r6a','T7':'added after seeds C14-r5a/C16-r6b','T8':'added after seeds C15-r6a/C15-r6b','Z7':'added after seed C17-r6b','Z8':'added after seed C17-r6a','N11':'added after seed C02-r7b','W10':'added after seed C08-r7b','Z9':'added after seeds C17-r7a/C15-r7a','V13':'added after seed C01-r7a','F10':'added after seed C04-r7a','O17':'added after seed C09-r7a','O18':'added after seed C09-r7b','I13':'added after seed C10-r7b','H9':'added after seed C11-r7a','J7':'added after seed C18-r7a','W11':'added after seed C11-r8b','W12':'added after seed C03-r8b','S9':'added after seed C08-r8a','V14':'added after seed C01-r8a','N12':'added after seed C02-r8a (first rule on valueSetAt)','M4':'added after seed C06-r8a','O19':'added after seed C09-r8a','H10':'added after seed C12-r8a','A11':'added after seed C08-r8b','E10':'added after seed C11-r8a','J8':'added after seed C18-r8b','R9':'added after seed C20-r8a','J9':'added after seed C18-r8a','N13':'added with valueSetAt (negative sizes, counts, shift distances)','N14':'added after seed C02-r9b','F11':'added after seed C05-r9a','M5':'added after seed C06-r9b','P3':'added after seed C06-r9a','S10':'added after seeds C07-r9b/C02-r9a','A12':'added after seed C08-r9a','I15':'added after seed C10-r9a','I16':'added after seed C10-r9b','E11':'added after seed C11-r9a','E12':'added after seed C11-r9b','T9':'added after seed C14-r9b','L8':'added after seed C16-r9b','B8':'added after seed C19-r9b','N15':'added after seed C20-r9a','N16':'added after re-reading seed C18-a','I17':'added after re-reading seed C10-r2b','E13':'added after re-reading seed C11-r3a (also catches C12-r8b)','H11':'added after re-reading seed C12-r2a','J10':'added after re-reading seed C18-r2b','Q9':'added after re-reading seed C15-r2b','D6':'added after seed C03-r10b','E14':'added after seed C19-r10a','V15':'added after seed C12-r10a','I18':'added after seeds C18-r10a/C19-r10b (found finding #24)','X2':'added after seed C14-r10a (also catches C15-r7b)','A13':'added after seed C08-r10b','L9':'added after seed C16-r10b','N17':'added after seed C02-r11b','L10':'added after seed C16-r11a','Z10':'added after seed C17-r11a','D7':'added after seed C01-r11b','S11':'added after seed C07-r11b','A14':'added after seed C02-r12a','N18':'added after seed C02-r12b','E15':'added after seed C01-r12a','G1':'added after seed C09-r12a','G2':'added after seed C01-r12b','P4':'added after seed C20-r12b','J11':'added after seed C18-r12b','M6':'added after seed C06-r12b','L11':'added after seed C16-r12a','Z11':'added after seed C17-r12b','E16':'added after seed C11-r12a','M7':'added after seed C02-r13b','E17':'added after seed C11-r13a','O20':'added after seed C09-r13b','E18':'added after seed C15-r13a','Q10':'added after seed C18-r13a','J12':'added after seed C18-r13b','D8':'added after seed C03-r13a','T11':'added after seed C14-r13a','O22':'added after seed C09-r14b','E19':'added after seed C11-r14b','L12':'added after seed C16-r14a','L13':'added after seed C16-r14b','N20':'added after seed C09-r14a','I19':'added after seed C10-r14b','M8':'added after seed C12-r14b','O21':'added for finding #25 (reported by the C09 seeding agent of round 14)','I14':'added after seed C20-r7b (found finding #23)',
 'H3':'planned; key-provenance clause added after seed C12-r3a','B2':'planned; made transitive after seed C19-r3b','P1':'planned; the double-release clause was added after seed C06-r3a',
}
out=subprocess.check_output([V+'/bin/verifsa','rules'],text=True)
rows=[]
for l in out.splitlines():
    n,props,doc=l.split('\t',2)
    d=doc.replace('|','\\|')
    rows.append(f"| {n} | {props} | {d} | {origin.get(n,'planned')} |")
tbl="| rule | properties | what it establishes | origin |\n|---|---|---|---|\n"+"\n".join(rows)
p=V+'/DESIGN.md'
s=open(p).read()
a=s.index('## Appendix A.')
b=s.index('## Appendix B.')
sec=s[a:b]
sec=re.sub(r'\| rule \| properties \|.*?(?=\n\n|\Z)',lambda m:tbl,sec,flags=re.S)
sec=re.sub(r'^\d+ rules in',f'{len(rows)} rules in',sec,flags=re.M)
open(p,'w').write(s[:a]+sec+s[b:])
print(len(rows),'rules')
