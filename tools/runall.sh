#!/bin/sh
# runs every claimed check (quick tier) in parallel and prints one line each
cd /verif
ids=$(python3 -c "import json;print(' '.join(c['property_id'] for c in json.load(open('MANIFEST.json'))['checks']))")
tier=${1:-quick}
for id in $ids; do ( ./check $id $tier > /tmp/runall.$id.out 2>&1; echo "$id exit=$? $(tail -1 /tmp/runall.$id.out)" ) & done; wait
