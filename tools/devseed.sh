#!/bin/sh
# tools/devseed.sh <seed-name> : development aid - a scratch worktree /tmp/dev/<seed> of /repo HEAD with the
# seeded patch applied (kept until `tools/devseed.sh -rm <seed>`); run rules on it with
#   VERIF_REPO=/tmp/dev/<seed> VERIF_DIR=/tmp/dev/ev bin/verifsa -rules X check ALL
if [ "$1" = "-rm" ]; then git -C /repo worktree remove --force /tmp/dev/$2; exit; fi
n=$1; patch=/verif/seeded/$n/patch.diff; [ -f "${patch%.diff}.head.diff" ] && patch="${patch%.diff}.head.diff"
mkdir -p /tmp/dev/ev; cp /verif/known_findings.json /tmp/dev/ev/
git -C /repo worktree add --detach /tmp/dev/$n HEAD >/dev/null 2>&1 || { echo "worktree failed"; exit 2; }
git -C /tmp/dev/$n apply "$patch" || echo "PATCH DOES NOT APPLY"
