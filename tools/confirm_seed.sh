#!/bin/sh
# tools/confirm_seed.sh <seed-src-dir> <id> <variant>
# Confirms a seeded change in a scratch worktree of the ORIGINAL snapshot commit
# (the commit the seeds were written against): the full suite passes with the
# change, the demonstration fails with it and passes without it.
# Writes /verif/seeded/<id>-<variant>/{patch.diff,demo_test.go,README.txt,confirm.log}
src="$1"; id="$2"; v="$3"
base=${BASE:-$(git -C /repo rev-list --max-parents=0 HEAD | tail -1)}
out=/verif/seeded/$id-$v; mkdir -p "$out"
cp "$src/patch.diff" "$src/demo_test.go" "$out"/; cp "$src/README.txt" "$out/README.txt" 2>/dev/null
wt=$(mktemp -d /tmp/confwt.XXXXXX)
git -C /repo worktree add --detach "$wt" "$base" >/dev/null 2>&1 || { echo "worktree failed"; exit 2; }
unset GOWORK; export GOFLAGS=-mod=mod GOPROXY=off
place=$(head -3 "$src/demo_test.go" | grep -o 'place at: *[^ ]*' | head -1 | sed 's/place at: *//')
runline=$(head -6 "$src/demo_test.go" | grep -o 'go test [^`]*' | head -1)
[ -z "$place" ] && { echo "no placement line"; git -C /repo worktree remove --force "$wt"; exit 2; }
log="$out/confirm.log"; : > "$log"
echo "base commit: $base" >> "$log"; echo "demo placed at: $place" >> "$log"; echo "demo command: $runline" >> "$log"
cp "$src/demo_test.go" "$wt/$place"
( cd "$wt" && timeout 600 sh -c "$runline" ) > "$wt/.demo_clean.out" 2>&1; rc_clean=$?
echo "demo on clean tree: exit $rc_clean" >> "$log"
rm -f "$wt/$place"
( cd "$wt" && git apply "$src/patch.diff" ) >> "$log" 2>&1 || { echo "patch failed" >> "$log"; git -C /repo worktree remove --force "$wt"; exit 2; }
( cd "$wt" && timeout 900 go test -vet=off -count=1 ./... ) > "$wt/.suite.out" 2>&1; rc_suite=$?
echo "full suite with change: exit $rc_suite" >> "$log"; grep -v "no test files" "$wt/.suite.out" | tail -8 >> "$log"
cp "$src/demo_test.go" "$wt/$place"
( cd "$wt" && timeout 600 sh -c "$runline" ) > "$wt/.demo_patched.out" 2>&1; rc_patched=$?
echo "demo with change: exit $rc_patched" >> "$log"; tail -5 "$wt/.demo_patched.out" | cut -c1-300 >> "$log"
git -C /repo worktree remove --force "$wt"
if [ $rc_clean -eq 0 ] && [ $rc_suite -eq 0 ] && [ $rc_patched -ne 0 ]; then echo "CONFIRMED $id-$v"; echo "verdict: CONFIRMED" >> "$log"; else echo "NOT CONFIRMED $id-$v (clean=$rc_clean suite=$rc_suite patched=$rc_patched)"; echo "verdict: NOT CONFIRMED" >> "$log"; fi
