#!/bin/sh
# tools/seedtest.sh <patch.diff> <Cxx> [<Cxx>...]
# Applies a seeded change to a throw-away worktree of /repo (never to /repo
# itself), runs the named checks against it with evidence redirected to a
# temporary directory, prints the verdict lines, and removes everything.
patch="$1"; shift
wt=$(mktemp -d /tmp/seedwt.XXXXXX); ev=$(mktemp -d /tmp/seedev.XXXXXX)
git -C /repo worktree add --detach "$wt" HEAD >/dev/null 2>&1 || { echo "worktree failed"; exit 2; }
# carry over uncommitted state of /repo? no: seeds are relative to HEAD
if ! git -C "$wt" apply "$patch" 2>/dev/null; then
  # the seed was made against the original snapshot; later fix: commits may touch neighbouring lines
  if ! git -C "$wt" apply --3way "$patch" >/dev/null 2>&1 && ! (cd "$wt" && patch -p1 -F3 -s < "$patch"); then
    echo "PATCH DOES NOT APPLY"; git -C /repo worktree remove --force "$wt"; rm -rf "$ev"; exit 2
  fi
fi
cp /verif/known_findings.json "$ev"/ 2>/dev/null
rc=0
for id in "$@"; do
  out=$(VERIF_REPO="$wt" VERIF_DIR="$ev" /verif/bin/verifsa check "$id" 2>&1); r=$?
  echo "== $id exit=$r"
  echo "$out" | grep -E "^\S+: \[[A-Z0-9a-z]+\] |CHECKER-FAILURE" | sed "s#$wt/##g" | cut -c1-300
  [ $r -ne 0 ] && rc=1
done
git -C /repo worktree remove --force "$wt"; rm -rf "$ev"
exit $rc
