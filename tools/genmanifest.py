#!/usr/bin/env python3
"""Regenerates /verif/MANIFEST.json from the table below (claims grow as rules are built)."""
import json, subprocess, os
V = os.path.dirname(os.path.dirname(os.path.abspath(__file__)))
props = [json.loads(l) for l in open(os.path.join(V, 'properties.jsonl'))]
claims = json.load(open(os.path.join(V, 'tools', 'claims.json')))
listed = subprocess.run([os.path.join(V, 'bin', 'verifsa'), 'list'], capture_output=True, text=True).stdout
rules = {l.split(':')[0]: l.split(':', 1)[1].split() for l in listed.splitlines() if ':' in l}
checks, na = [], []
for p in props:
    pid = p['id']
    c = claims.get(pid)
    if c and c.get('claimed') and pid in rules:
        checks.append({
            "property_id": pid,
            "quick_cmd": "./check %s quick" % pid,
            "thorough_cmd": "./check %s thorough" % pid,
            "evidence_file": "evidence/%s.json" % pid,
            "replay_cmd_template": "./check --replay {path}",
            "engine": "verifsa",
            "level_claimed": {"category": "other", "text": c['text'], "design_ref": c.get('design_ref', 'DESIGN.md section 3, ' + pid)},
            "level_note": c['note'],
            "technique": "static analysis (%s): rules %s" % (c['technique'], ' '.join(rules[pid])),
        })
    else:
        na.append({"property_id": pid, "reason": (c or {}).get('na_reason', "check not built yet (engine under construction); see DESIGN.md for the plan")})
m = {
    "version": 1,
    "setup_cmd": "./setup.sh",
    "hooks": {"guard": "verif", "enable": "none needed: static analysis reads /repo's source as it is (no hooks, no instrumentation)",
              "baseline_off_cmd": "cd /repo && GOFLAGS=-mod=mod GOPROXY=off go test -vet=off -count=1 ./...",
              "source_commits": [], "add_only": True},
    "engines": [{"name": "verifsa", "path": "sa", "serves_properties": [c['property_id'] for c in checks],
                 "kind_free_text": "repository-specific static analyser over go/types + go/ssa (dominators, value tracing) + go/ast tables + VTA call graph, golang.org/x/tools v0.29.0; reads /repo's working tree on every run, never executes repository code"}],
    "checks": checks,
    "notes": "Static-analysis family only; every claim is level 'other': a machine-checked structural necessary condition, not the behavioural property. Exit 0 held / 1 VIOLATION / 2 checker failure (never a pass). Known genuine defects are listed in known_findings.json and printed as KNOWN-FINDING.",
    "not_applicable": na,
}
json.dump(m, open(os.path.join(V, 'MANIFEST.json'), 'w'), indent=1)
print("claimed:", [c['property_id'] for c in checks], "n/a:", [n['property_id'] for n in na])
