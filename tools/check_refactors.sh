#!/bin/sh
# Runs every claimed check against each behaviour-preserving refactoring patch kept
# under seeded/refactors/: any output line is a false alarm.
cd /verif
for d in seeded/refactors/*/; do
  echo "## $d"; tools/seedall.sh "$d/patch.diff" 2>&1 | sort -u | cut -c1-300
done
