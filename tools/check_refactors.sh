#!/bin/sh
# Runs every rule against each behaviour-preserving refactoring patch kept under
# seeded/refactors/. The patches were written against commit $BASE of /repo; they are applied
# to a throw-away worktree of that commit and the alarms are compared with those of the
# unpatched commit: only NEW alarms (rule + construct) are printed - each is a false alarm.
BASE=${BASE:-787d91c}
cd /verif
run() { # $1 = optional patch
  wt=$(mktemp -d /tmp/rfwt.XXXXXX); ev=$(mktemp -d /tmp/rfev.XXXXXX); cp known_findings.json "$ev"/
  git -C /repo worktree add --detach "$wt" "$BASE" >/dev/null 2>&1 || { echo "worktree failed"; return; }
  if [ -n "$1" ]; then git -C "$wt" apply "$1" || echo "PATCH DOES NOT APPLY"; fi
  VERIF_REPO="$wt" VERIF_DIR="$ev" bin/verifsa check ALL 2>&1 | grep -E "^\S+: \[[A-Z0-9a-z]+\] |CHECKER-FAILURE" | sed -E 's/^[^[]*(\[[A-Za-z0-9]+\] [^:]*(: [^:]*)?).*/\1/' | sort -u
  rm -rf "$ev"; git -C /repo worktree remove --force "$wt"
}
run "" > /tmp/rf.base.txt
for d in seeded/refactors/*/; do
  run "/verif/$d/patch.diff" > /tmp/rf.cur.txt
  new=$(comm -13 /tmp/rf.base.txt /tmp/rf.cur.txt)
  echo "## $d: $(echo "$new" | grep -c . ) new alarm(s)"; [ -n "$new" ] && echo "$new" | cut -c1-200
done
