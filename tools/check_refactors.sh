#!/bin/sh
# Runs every rule against each behaviour-preserving refactoring patch kept under
# seeded/refactors/<X>/ (patch.diff, README.txt, base = the commit of /repo it was written
# against). Each patch is applied to a throw-away worktree of its base commit and the alarms
# are compared with those of the unpatched base: only NEW alarms (rule + construct) are
# printed - each one is a false alarm of the checker.
# usage: tools/check_refactors.sh [X ...]   (default: all)
cd /verif
snap=$(mktemp /tmp/verifsa.XXXXXX); cp bin/verifsa $snap; chmod +x $snap   # later rebuilds must not disturb a running check
run() { # $1 = base, $2 = optional patch
  wt=$(mktemp -d /tmp/rfwt.XXXXXX); ev=$(mktemp -d /tmp/rfev.XXXXXX); cp known_findings.json "$ev"/
  git -C /repo worktree add --detach "$wt" "$1" >/dev/null 2>&1 || { echo "worktree failed"; return; }
  if [ -n "$2" ]; then git -C "$wt" apply "$2" || echo "PATCH DOES NOT APPLY"; fi
  VERIF_REPO="$wt" VERIF_DIR="$ev" $snap check ALL 2>&1 | grep -E "^\S+: \[[A-Z0-9a-z]+\] |CHECKER-FAILURE" | sed -E 's/^[^[]*(\[[A-Za-z0-9]+\] [^:]*(: [^:]*)?).*/\1/' | sort -u
  rm -rf "$ev"; git -C /repo worktree remove --force "$wt"
}
sel="$*"; [ -z "$sel" ] && sel=$(ls seeded/refactors)
for x in $sel; do
  d=seeded/refactors/$x
  base=$(cat $d/base 2>/dev/null || echo 787d91c)
  [ -f /tmp/rf.base.$$.$base.txt ] || run "$base" "" > /tmp/rf.base.$$.$base.txt
  run "$base" "/verif/$d/patch.diff" > /tmp/rf.cur.$$.txt
  new=$(comm -13 /tmp/rf.base.$$.$base.txt /tmp/rf.cur.$$.txt)
  echo "## $d: $(echo "$new" | grep -c . ) new alarm(s)"; [ -n "$new" ] && echo "$new" | cut -c1-220
done
rm -f /tmp/rf.base.$$.*.txt /tmp/rf.cur.$$.txt $snap
