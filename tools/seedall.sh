#!/bin/sh
# tools/seedall.sh <patch.diff> : applies the patch to a throw-away worktree of /repo (never to
# /repo itself) and runs EVERY rule once against it (pseudo-property ALL); prints only alarms.
patch="$1"
# a seed whose patch no longer applies to HEAD (a later fix: touched the same lines) carries a re-based copy
[ -f "${patch%.diff}.head.diff" ] && patch="${patch%.diff}.head.diff"
wt=$(mktemp -d /tmp/seedwt.XXXXXX)
git -C /repo worktree add --detach "$wt" HEAD >/dev/null 2>&1 || { echo "worktree failed"; exit 2; }
if ! git -C "$wt" apply "$patch" 2>/dev/null; then
  if ! git -C "$wt" apply --3way "$patch" >/dev/null 2>&1 && ! (cd "$wt" && patch -p1 -F3 -s < "$patch"); then
    echo "PATCH DOES NOT APPLY"; git -C /repo worktree remove --force "$wt"; exit 2
  fi
fi
ev=$(mktemp -d /tmp/seedev.XXXXXX); cp /verif/known_findings.json "$ev"/
out=$(VERIF_REPO="$wt" VERIF_DIR="$ev" ${VERIFSA:-/verif/bin/verifsa} ${RULES:+-rules $RULES} check ALL 2>&1); r=$?
if [ $r -ne 0 ]; then echo "== exit=$r"; echo "$out" | grep -E "^\S+: \[[A-Z0-9a-z]+\] |CHECKER-FAILURE" | sed "s#$wt/##g" | cut -c1-330; fi
rm -rf "$ev"; git -C /repo worktree remove --force "$wt"
