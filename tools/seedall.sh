#!/bin/sh
# tools/seedall.sh <patch.diff> : runs EVERY claimed check against the patched worktree, prints only failures
patch="$1"
ids=$(python3 -c "import json;print(' '.join(c['property_id'] for c in json.load(open('/verif/MANIFEST.json'))['checks']))")
wt=$(mktemp -d /tmp/seedwt.XXXXXX)
git -C /repo worktree add --detach "$wt" HEAD >/dev/null 2>&1 || { echo "worktree failed"; exit 2; }
if ! git -C "$wt" apply "$patch" 2>/dev/null; then
  if ! git -C "$wt" apply --3way "$patch" >/dev/null 2>&1 && ! (cd "$wt" && patch -p1 -F3 -s < "$patch"); then
    echo "PATCH DOES NOT APPLY"; git -C /repo worktree remove --force "$wt"; exit 2
  fi
fi
for id in $ids; do
  ( ev=$(mktemp -d /tmp/seedev.XXXXXX); cp /verif/known_findings.json "$ev"/
    out=$(VERIF_REPO="$wt" VERIF_DIR="$ev" /verif/bin/verifsa check "$id" 2>&1); r=$?
    if [ $r -ne 0 ]; then echo "== $id exit=$r"; echo "$out" | grep -E "^\S+: \[[A-Z0-9a-z]+\] |CHECKER-FAILURE" | sed "s#$wt/##g" | cut -c1-330; fi
    rm -rf "$ev" ) &
done; wait
git -C /repo worktree remove --force "$wt"
