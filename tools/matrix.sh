#!/bin/sh
# tools/matrix.sh : detection matrix of all seeded changes (round 1 under /tmp/seed, round 2 under /tmp/seed2 or /verif/seeded)
cd /verif
for d in seeded/C*-*/; do
  n=$(basename $d)
  out=$(tools/seedall.sh /verif/$d/patch.diff 2>&1 | grep -E "^\S+: \[|PATCH DOES NOT|CHECKER-FAILURE" | sed -E 's/^[^[]*\[([A-Za-z0-9]+)\].*/\1/' | sort -u | tr '\n' ' ')
  echo "$n: ${out:-MISSED}"
done
