#!/bin/sh
# tools/matrix.sh [glob] : detection matrix of the seeded changes kept under /verif/seeded (default all; e.g. 'C*-r3*')
# runs ${PAR:-5} seeds at a time
cd /verif
one() {
  d=$1; n=$(basename $d)
  out=$(tools/seedall.sh /verif/$d/patch.diff 2>&1 | grep -E "^\S+: \[|PATCH DOES NOT|CHECKER-FAILURE" | sed -E 's/^[^[]*\[([A-Za-z0-9]+)\].*/\1/' | sort -u | tr '\n' ' ')
  echo "$n: ${out:-MISSED}"
}
if [ "$1" = "--one" ]; then one "$2"; exit; fi
snap=$(mktemp /tmp/verifsa.XXXXXX); cp bin/verifsa $snap; chmod +x $snap; export VERIFSA=$snap   # later rebuilds must not disturb a running matrix
ls -d seeded/${1:-C*-*}/ | xargs -P ${PAR:-5} -n 1 tools/matrix.sh --one | sort
rm -f $snap
