#!/bin/sh
# tools/matrix.sh [glob] : detection matrix of the seeded changes kept under /verif/seeded (default all; e.g. 'C*-r3*')
cd /verif
for d in seeded/${1:-C*-*}/; do
  n=$(basename $d)
  out=$(tools/seedall.sh /verif/$d/patch.diff 2>&1 | grep -E "^\S+: \[|PATCH DOES NOT|CHECKER-FAILURE" | sed -E 's/^[^[]*\[([A-Za-z0-9]+)\].*/\1/' | sort -u | tr '\n' ' ')
  echo "$n: ${out:-MISSED}"
done
