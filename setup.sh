#!/bin/sh
# Build the static analyser offline from files on disk only.
set -e
cd "$(dirname "$0")/sa"
unset GOWORK
export GOFLAGS=-mod=mod GOPROXY=off
mkdir -p ../bin
go build -o ../bin/verifsa .
echo "built /verif/bin/verifsa"
